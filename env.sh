# sourced by setup.sh and check: offline Go environment that works under any harness env
GOMODCACHE_DIR="${GOMODCACHE:-$(go env GOMODCACHE 2>/dev/null || echo /root/go/pkg/mod)}"
TC="$GOMODCACHE_DIR/golang.org/toolchain@v0.0.1-go1.24.12.linux-amd64"
if [ -x "$TC/bin/go" ]; then
  export PATH="$TC/bin:$PATH"
  export GOTOOLCHAIN=local
  export GOROOT="$TC"
fi
export GOFLAGS=-mod=mod GOPROXY=off GONOSUMDB='*' GONOSUMCHECK=1 GOFLAGS=-mod=mod
unset GOSUMDB
export GOSUMDB=off
