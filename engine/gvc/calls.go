package gvc

import (
	"fmt"
	"go/token"
	"go/types"
	"math/big"
	"strings"

	"golang.org/x/tools/go/ssa"
)

func (u *Unit) doCall(st *State, fr *Frame, in *ssa.Call, k Kont) {
	cc := in.Common()
	args := make([]Val, len(cc.Args))
	for i, a := range cc.Args {
		args[i] = u.get(st, fr, a)
	}
	if cc.IsInvoke() {
		recv, _ := u.get(st, fr, cc.Value).(IfaceV)
		u.invoke(st, fr, in, recv, cc.Method, args, k)
		return
	}
	switch v := cc.Value.(type) {
	case *ssa.Builtin:
		k(st, u.builtin(st, fr, in, v, args))
		return
	}
	// a slice handed to a call may be retained or re-sliced by the callee
	for _, a := range args {
		u.escape(st, a)
	}
	switch v := cc.Value.(type) {
	case *ssa.Function:
		u.callStatic(st, fr, in, v, args, nil, k)
		return
	}
	fv, _ := u.get(st, fr, cc.Value).(FuncV)
	if fv.Fn != nil {
		u.callStatic(st, fr, in, fv.Fn, args, fv.Bind, k)
		return
	}
	if fv.B != nil {
		k(st, u.builtin(st, fr, in, fv.B, args))
		return
	}
	// a package-level function variable of a dependency whose initialiser is
	// known (read from the pinned dependency source)
	if un, ok := cc.Value.(*ssa.UnOp); ok {
		if g, ok := un.X.(*ssa.Global); ok && g.Pkg != nil && g.Pkg.Pkg.Path() == "github.com/go-i2p/crypto/types" && g.Name() == "SHA256" {
			// var SHA256 = sha256.Sum256
			if res, ok := u.hashModel(st, args, in.Type()); ok {
				u.Assumed["A-DEP-SHA256: go-i2p/crypto/types.SHA256 is crypto/sha256.Sum256 (package-level variable, assumed not reassigned)"]++
				k(st, res)
				return
			}
		}
	}
	u.Assumed["dynamic call of an unknown function value"]++
	k(st, u.havocResult(st, in.Type(), "dyn"))
}

func (u *Unit) zeroResult(t types.Type) Val {
	if tt, ok := t.(*types.Tuple); ok && tt.Len() == 0 {
		return nil
	}
	return u.zeroVal(t)
}

func (u *Unit) havocResult(st *State, t types.Type, name string) Val {
	if tt, ok := t.(*types.Tuple); ok {
		if tt.Len() == 0 {
			return nil
		}
		e := make([]Val, tt.Len())
		for i := range e {
			e[i] = u.freshVal(st, tt.At(i).Type(), fmt.Sprintf("%s_%d", name, i), false)
		}
		return TupleV{E: e}
	}
	return u.freshVal(st, t, name, false)
}

func (u *Unit) isSpecFile(fn *ssa.Function) bool {
	if fn == nil || u.P.Fset == nil {
		return false
	}
	root := fn
	for root.Parent() != nil {
		root = root.Parent()
	}
	pos := u.P.Fset.Position(root.Pos())
	return strings.HasSuffix(pos.Filename, "zz_gvc_spec.go")
}

func (u *Unit) callStatic(st *State, fr *Frame, in *ssa.Call, fn *ssa.Function, args []Val, bind []Val, k Kont) {
	name := fn.String()
	if fn.Name() == "init" && fn.Signature.Params().Len() == 0 && !InRepo(fn) {
		k(st, nil) // initialisers of dependencies are not executed
		return
	}
	// ghost intrinsics of the spec prelude
	if u.isSpecFile(fn) && fn.Parent() == nil {
		if res, ok := u.intrinsic(st, fr, in, fn, args); ok {
			k(st, res)
			return
		}
	}
	// external models
	if res, ok := u.external(st, fr, in, fn, args); ok {
		k(st, res)
		return
	}
	if u.specMode > 0 {
		if ct := u.P.ContractOf(fn); ct != nil && ct.Pure && InRepo(fn) {
			k(st, u.pureGhost(st, fn, args, in.Type()))
			return
		}
		// pure evaluation of spec functions / pure helpers of the real code
		if InRepo(fn) || fn.Synthetic != "" || u.isSpecFile(fn) || (execDep(name) && fn.Blocks != nil) {
			k(st, u.evalPure(st, fn, args, bind))
			return
		}
		k(st, u.pureExternal(st, name, args, in.Type()))
		return
	}
	if u.isSpecFile(fn) && fn.Parent() == nil && !strings.HasPrefix(fn.Name(), "gvcL_") {
		// spec functions are side-effect free: one value, no path forking
		k(st, u.evalPure(st, fn, args, bind))
		return
	}
	if InRepo(fn) || fn.Synthetic != "" || u.isSpecFile(fn) {
		if ct := u.P.ContractOf(fn); ct != nil && fn != u.Target && !u.Cfg.NoContracts[FuncName(fn)] && !u.Cfg.NoContracts[shortFuncName(fn)] && !u.Cfg.NoContracts["*"] {
			u.useContract(st, fr, in, fn, ct, args, k)
			return
		}
		if fn.Blocks != nil {
			if fr.depth >= u.Cfg.MaxDepth {
				u.limit("inlining depth %d exceeded at %s", u.Cfg.MaxDepth, FuncName(fn))
				k(st, u.havocResult(st, in.Type(), "deep"))
				return
			}
			if fn.Synthetic == "" {
				u.Inlined[FuncName(fn)]++
			}
			u.runFunc(st, fn, args, bind, fr.depth+1, k)
			return
		}
	}
	if execDep(name) && fn.Blocks != nil {
		u.Inlined["dep:"+name]++
		u.runFunc(st, fn, args, bind, fr.depth+1, k)
		return
	}
	// unknown external code: everything reachable from its pointer-like
	// arguments may have been written
	hv := false
	for _, a := range args {
		switch a.(type) {
		case SliceV, PtrV, MapV, FuncV, IfaceV, StructV:
			hv = true
		}
	}
	if hv {
		u.havocReachable(st, args)
		u.Assumed["unmodelled external (result unconstrained; memory reachable from its arguments havocked): "+name]++
	} else {
		u.Assumed["unmodelled external (result unconstrained): "+name]++
	}
	k(st, u.havocResult(st, in.Type(), "ext_"+fn.Name()))
}

// execDep: dependency functions small enough to be executed from their own SSA.
func execDep(name string) bool {
	switch {
	case strings.HasPrefix(name, "github.com/go-i2p/crypto/ed25519.NewEd25519PublicKey"),
		strings.HasPrefix(name, "github.com/go-i2p/crypto/ed25519.CreateEd25519PublicKeyFromBytes"),
		strings.HasPrefix(name, "(github.com/go-i2p/crypto/") && (strings.HasSuffix(name, ").Len") || strings.HasSuffix(name, ").Bytes")):
		return true
	}
	return false
}

// ---------------------------------------------------------------- builtins

func (u *Unit) builtin(st *State, fr *Frame, in *ssa.Call, b *ssa.Builtin, args []Val) Val {
	switch b.Name() {
	case "len":
		switch x := args[0].(type) {
		case SliceV:
			return WithBounds(x.Len, big.NewInt(0), MaxLen)
		case StrV:
			return WithBounds(x.Len, big.NewInt(0), MaxLen)
		case ArrV:
			return IntLit(x.N)
		case ArrTupleV:
			return IntLit(int64(len(x.E)))
		case MapV:
			if x.ID == 0 && !x.Opaque {
				return IntLit(0)
			}
			l := u.newInt("maplen")
			u.assume(And(Le(IntLit(0), l), Le(l, BigLit(MaxLen))))
			return WithBounds(l, big.NewInt(0), MaxLen)
		case PtrV:
			if at, ok := x.Elem.Underlying().(*types.Array); ok {
				return IntLit(at.Len())
			}
		}
	case "cap":
		switch x := args[0].(type) {
		case SliceV:
			return WithBounds(x.Cap, big.NewInt(0), MaxLen)
		case ArrV:
			return IntLit(x.N)
		}
	case "copy":
		return u.copyBuiltin(st, fr, in, args)
	case "append":
		return u.appendBuiltin(st, fr, in, args)
	case "min", "max":
		r := args[0].(*Term)
		for _, a := range args[1:] {
			t := a.(*Term)
			if b.Name() == "min" {
				r = Ite(Le(r, t), r, t)
			} else {
				r = Ite(Ge(r, t), r, t)
			}
		}
		return r
	case "ssa:wrapnilchk":
		if pv, ok := args[0].(PtrV); ok {
			u.safety(st, fr, in.Pos(), "nil pointer receiver of a value method", Not(pv.Nil))
		}
		return args[0]
	case "print", "println":
		return nil
	case "delete":
		if m, ok := args[0].(MapV); ok && m.Global != nil {
			u.check(st, u.oblName(fr.fn, "frame", "delete from package-level map "+m.Global.Name()), "frame", TFalse, "package-level table is written")
		}
		return nil
	}
	u.limit("unmodelled builtin %s in %s", b.Name(), FuncName(fr.fn))
	return u.havocResult(st, in.Type(), "builtin")
}

func (u *Unit) copyBuiltin(st *State, fr *Frame, in *ssa.Call, args []Val) Val {
	dst := args[0].(SliceV)
	var srcArr, srcOff, srcLen *Term
	switch s := args[1].(type) {
	case SliceV:
		if s.List != nil || dst.List != nil {
			return u.copyList(st, fr, dst, s)
		}
		r := u.regionOf(st, s.Blk)
		srcArr, srcOff, srcLen = r.C, s.Off, s.Len
	case StrV:
		srcArr, srcOff, srcLen = s.Arr, IntLit(0), s.Len
	}
	n := u.name(Ite(Le(dst.Len, srcLen), dst.Len, srcLen), "n")
	n = WithBounds(n, big.NewInt(0), MaxLen)
	if n.IsInt && n.I.Sign() == 0 {
		return n
	}
	dOff := u.name(dst.Off, "do")
	sOff := u.name(srcOff, "so")
	// if the destination may be nil (n==0 then) the write is void
	what := u.srcAt(fr.fn, in.Pos(), "copy")
	u.S.Push()
	u.S.Assert(Gt(n, IntLit(0)))
	void := u.S.CheckSatT(u.Cfg.FeasMs) == "unsat"
	u.S.Pop()
	if void {
		return n
	}
	u.writeBytes(st, "", dst.Blk, dOff, n, func(j *Term) *Term {
		return Select(srcArr, Add(sOff, Sub(j, dOff)))
	}, "copy into "+what)
	return n
}

func (u *Unit) copyList(st *State, fr *Frame, dst, src SliceV) Val {
	if dst.List == nil || src.List == nil || !dst.Len.IsInt || !src.Len.IsInt {
		// symbolic length: the destination's elements become unknown (a
		// sound over-approximation); a destination that existed before the
		// call is a frame violation like any other store
		if dst.List != nil {
			if dst.List.Sym && !dst.List.New {
				st.written = true
				if u.Cfg.FrameCheck && u.specMode == 0 {
					u.check(st, u.oblName(fr.fn, "frame", "copy into a list that existed before the call"), "frame", Eq(dst.Len, IntLit(0)), "store into memory that existed before the call")
				}
			}
			for key, oc := range u.cellIdx {
				if strings.HasPrefix(key, fmt.Sprintf("list%d[", dst.List.ID)) {
					delete(st.cells, oc.ID)
					st.symCells[oc.ID] = true
				}
			}
			u.StoresSeen++
		}
		n := u.newInt("copyn")
		u.assume(And(Le(IntLit(0), n), Le(n, dst.Len), Le(n, src.Len)))
		return n
	}
	n := dst.Len.I.Int64()
	if src.Len.I.Int64() < n {
		n = src.Len.I.Int64()
	}
	for i := 0; i < int(n); i++ {
		v := u.loadCell(st, u.listCell(src.List, src.LOff+i))
		u.storeCell(st, u.listCell(dst.List, dst.LOff+i), v)
	}
	return IntLit(n)
}

// appendBuiltin: append(s, xs...) without forking.  The result lives in a new
// region object R whose block is ite(fits, blk(s), fresh); when the elements
// fit they are also written into s's region (conditionally), and R is linked
// to s's region so that later writes stay coherent.
func (u *Unit) appendBuiltin(st *State, fr *Frame, in *ssa.Call, args []Val) Val {
	s := args[0].(SliceV)
	var xArr, xOff, xLen *Term
	switch x := args[1].(type) {
	case SliceV:
		if x.List != nil || s.List != nil || !isByte(s.Elem) {
			return u.appendList(st, fr, s, x)
		}
		if x.Blk.IsInt && x.Blk.I.Sign() == 0 {
			return s // append(s, nil...) = s
		}
		xr := u.regionOf(st, x.Blk)
		xArr, xOff, xLen = xr.C, x.Off, x.Len
	case StrV:
		xArr, xOff, xLen = x.Arr, IntLit(0), x.Len
	default:
		return s
	}
	if xLen.IsInt && xLen.I.Sign() == 0 {
		return s
	}
	what := u.srcAt(fr.fn, in.Pos(), "append")
	n := u.name(xLen, "n")
	sLen := u.name(s.Len, "sl")
	newLen := WithBounds(Add(sLen, n), big.NewInt(0), new(big.Int).Mul(MaxLen, big.NewInt(2)))
	fits := Le(newLen, s.Cap)
	xo := u.name(xOff, "xo")
	// a fresh block nobody else can reference: in place or not is unobservable
	if !(s.Blk.IsInt && s.Blk.I.Sign() == 0) {
		if r := u.regionOf(st, s.Blk); r.Fresh && !r.Escaped && !r.Virt && u.specMode == 0 {
			sC0, sOff0 := r.C, u.name(s.Off, "so")
			nr := &Region{Blk: u.allocID(st), Fresh: true}
			nr.C = u.mkArr(func(j *Term) *Term {
				return Ite(Lt(j, sLen), Select(sC0, Add(sOff0, j)), Select(xArr, Add(xo, Sub(j, sLen))))
			})
			// piece boundaries (relative to the new buffer, which starts at 0)
			if sOff0.IsInt && sOff0.I.Sign() == 0 && len(sC0.Segs) > 0 {
				nr.C.Segs = append(append([]*Term(nil), sC0.Segs...), sLen)
			} else {
				nr.C.Segs = []*Term{sLen}
			}
			u.addRegion(st, nr)
			cp := u.newInt("cap")
			u.assume(And(Le(newLen, cp), Le(cp, BigLit(MaxLen))))
			u.LinearAppends++
			return SliceV{Blk: nr.Blk, Off: IntLit(0), Len: newLen, Cap: cp, Elem: s.Elem}
		}
	}
	// decide statically when possible
	fitsPossible := !(fits.IsBool && !fits.B)
	if fitsPossible && !fits.IsBool {
		// n > 0 and fits?
		fitsPossible = u.feasible(And(fits, Gt(n, IntLit(0))))
	}
	noFitPossible := !(fits.IsBool && fits.B)
	if noFitPossible && !fits.IsBool {
		noFitPossible = u.feasible(Not(fits))
	}
	// new block (used when it does not fit)
	var sC *Term
	sOff := u.name(s.Off, "so")
	sNil := s.Blk.IsInt && s.Blk.I.Sign() == 0
	if sNil {
		sC = zeroArr
	} else {
		sC = u.regionOf(st, s.Blk).C
	}
	if !fitsPossible {
		// always reallocates: clean fresh region
		r := &Region{Blk: u.allocID(st), Fresh: true}
		r.C = u.mkArr(func(j *Term) *Term {
			return Ite(Lt(j, sLen), Select(sC, Add(sOff, j)), Select(xArr, Add(xo, Sub(j, sLen))))
		})
		u.addRegion(st, r)
		cp := u.newInt("cap")
		u.assume(And(Le(newLen, cp), Le(cp, BigLit(MaxLen))))
		return SliceV{Blk: r.Blk, Off: IntLit(0), Len: newLen, Cap: cp, Elem: s.Elem}
	}
	if !noFitPossible {
		// always in place
		lo := Add(sOff, sLen)
		u.writeBytes(st, "", s.Blk, lo, n, func(j *Term) *Term {
			return Select(xArr, Add(xo, Sub(j, Add(sOff, sLen))))
		}, "append in place "+what)
		return SliceV{Blk: s.Blk, Off: s.Off, Len: newLen, Cap: s.Cap, Elem: s.Elem}
	}
	// both possible: conditional model
	fitsC := u.newBool("fits")
	u.assume(Eq(fitsC, fits))
	sr := u.regionOf(st, s.Blk)
	// 1. conditional in-place write into s's region (and regions linked to it)
	if !sr.Fresh {
		u.frameWriteCond(st, sr, And(fitsC, Gt(n, IntLit(0))), "append in place "+what)
	}
	lo := u.name(Add(sOff, sLen), "lo")
	hi := u.name(Add(lo, n), "hi")
	inr := func(j *Term) *Term { return And(fitsC, Le(lo, j), Lt(j, hi)) }
	val := func(j *Term) *Term { return Select(xArr, Add(xo, Sub(j, lo))) }
	oldC := sr.C
	u.setContents(st, sr.Blk.S, u.mkArr(func(j *Term) *Term { return Ite(inr(j), val(j), Select(oldC, j)) }))
	for _, e := range st.edges[sr.Blk.S] {
		q := st.regions[e.Other]
		if q == nil {
			continue
		}
		if !q.Fresh {
			u.frameWriteCond(st, q, And(e.Cond, fitsC, Gt(n, IntLit(0))), "append in place "+what)
		}
		qC, cond := q.C, e.Cond
		u.setContents(st, e.Other, u.mkArr(func(j *Term) *Term { return Ite(And(cond, inr(j)), val(j), Select(qC, j)) }))
	}
	// 2. the result region
	nb := u.newInt("ab")
	fresh := u.allocID(st)
	u.assume(Eq(nb, Ite(fitsC, s.Blk, fresh)))
	no := u.newInt("ao")
	u.assume(Eq(no, Ite(fitsC, sOff, IntLit(0))))
	nc := u.newInt("acap")
	u.assume(Ite(fitsC, Eq(nc, s.Cap), And(Le(newLen, nc), Le(nc, BigLit(MaxLen)))))
	other := u.newArr("U")
	end := u.name(Add(no, newLen), "end")
	body := func(j *Term) *Term {
		return Ite(And(Le(no, j), Lt(j, end)),
			Ite(Lt(Sub(j, no), sLen), Select(oldC, Add(sOff, Sub(j, no))), Select(xArr, Add(xo, Sub(Sub(j, no), sLen)))),
			Ite(fitsC, Select(oldC, j), Select(other, j)))
	}
	R := &Region{Blk: nb, C: u.mkArr(body), Fresh: sr.Fresh}
	u.addRegion(st, R)
	// links: R ~ s.region when fits, and transitively s.region's links
	link := func(a, b string, c *Term) {
		st.edges[a] = append(st.edges[a], Edge{Other: b, Cond: c})
		st.edges[b] = append(st.edges[b], Edge{Other: a, Cond: c})
	}
	for _, e := range append([]Edge(nil), st.edges[sr.Blk.S]...) {
		link(nb.S, e.Other, And(fitsC, e.Cond))
	}
	link(nb.S, sr.Blk.S, fitsC)
	return SliceV{Blk: nb, Off: no, Len: newLen, Cap: nc, Elem: s.Elem}
}

func (u *Unit) appendList(st *State, fr *Frame, s, x SliceV) Val {
	if !s.Len.IsInt || !x.Len.IsInt {
		// contents are not tracked for lists of symbolic length: the result is
		// a list of the right length with unconstrained elements
		r := u.freshVal(st, types.NewSlice(s.Elem), "applist", false).(SliceV)
		u.assume(Eq(r.Len, Add(s.Len, x.Len)))
		u.assume(Neq(r.Blk, IntLit(0)))
		return r
	}
	n, m := int(s.Len.I.Int64()), int(x.Len.I.Int64())
	if m == 0 {
		return s
	}
	lst := u.newList(s.Elem, false)
	for i := 0; i < n; i++ {
		st.cells[u.listCell(lst, i).ID] = u.loadCell(st, u.listCell(s.List, s.LOff+i))
	}
	for i := 0; i < m; i++ {
		st.cells[u.listCell(lst, n+i).ID] = u.loadCell(st, u.listCell(x.List, x.LOff+i))
	}
	cp := u.newInt("cap")
	u.assume(And(Le(IntLit(int64(n+m)), cp), Le(cp, BigLit(MaxLen))))
	return SliceV{Blk: u.allocID(st), Off: IntLit(0), Len: IntLit(int64(n + m)), Cap: cp, Elem: s.Elem, List: lst}
}

// ---------------------------------------------------------------- interface calls

func (u *Unit) invoke(st *State, fr *Frame, in *ssa.Call, recv IfaceV, m *types.Func, args []Val, k Kont) {
	u.safety(st, fr, in.Pos(), "nil interface method call", Not(recv.Nil))
	if u.specMode > 0 && recv.Nil.IsBool && recv.Nil.B {
		k(st, u.zeroResult(in.Type())) // specifications are total
		return
	}
	if recv.Dyn != nil {
		if res, ok := u.newObjModel(st, recv, m); ok {
			k(st, res)
			return
		}
		ms := u.P.Prog.MethodSets.MethodSet(recv.Dyn)
		sel := ms.Lookup(m.Pkg(), m.Name())
		if sel != nil {
			if fn := u.P.Prog.MethodValue(sel); fn != nil {
				u.callStatic(st, fr, in, fn, append([]Val{recv.V}, args...), nil, k)
				return
			}
		}
	}
	if res, ok := u.invokeModel(st, fr, in, recv, m, args); ok {
		k(st, res)
		return
	}
	u.Assumed["interface method on an opaque value (result unconstrained): "+m.FullName()]++
	k(st, u.havocResult(st, in.Type(), "inv_"+m.Name()))
}

// ---------------------------------------------------------------- contracts

func (u *Unit) clauseFunc(fn *ssa.Function, name string) *ssa.Function {
	if fn.Pkg == nil {
		return nil
	}
	return fn.Pkg.Func(name)
}

func (u *Unit) useContract(st *State, fr *Frame, in *ssa.Call, fn *ssa.Function, ct *Contract, args []Val, k Kont) {
	if u.Cfg.InlineOnPreFail && len(ct.Requires) > 0 && fn.Blocks != nil && fr.depth < u.Cfg.MaxDepth {
		ok := true
		for _, cl := range ct.Requires {
			cf := u.clauseFunc(fn, cl.Func)
			u.goalMode++
			t := u.evalPure(st, cf, args, nil).(*Term)
			u.goalMode--
			if !u.provableQ(t) {
				ok = false
				break
			}
		}
		if !ok {
			u.Inlined[FuncName(fn)+" (precondition not provable here: body executed)"]++
			u.runFunc(st, fn, args, nil, fr.depth+1, k)
			return
		}
	}
	u.UsedContracts[FuncName(fn)]++
	for _, cl := range ct.Requires {
		cf := u.clauseFunc(fn, cl.Func)
		u.goalMode++
		t := u.evalPure(st, cf, args, nil).(*Term)
		u.goalMode--
		u.check(st, fmt.Sprintf("%s#pre:%s:%s", FuncName(fr.fn), FuncName(fn), cl.Text), "pre", t, "precondition of "+FuncName(fn)+": "+cl.Text)
	}
	before := u.S.CheckSatT(u.Cfg.FeasMs)
	if before == "unsat" {
		return // the path is infeasible: nothing to execute
	}
	base := Add(st.wm, IntLit(int64(st.nalloc)))
	res := u.havocResult(st, in.Type(), "ret_"+fn.Name())
	u.bumpWatermark(st)
	var all []Val
	all = append(all, args...)
	switch r := res.(type) {
	case nil:
	case TupleV:
		all = append(all, r.E...)
	default:
		all = append(all, r)
	}
	// every byte slice in the result is nil, points into memory that existed
	// before the call, or into memory allocated by the callee
	epoch := len(st.order)
	u.walkIfaces(st, res, 0, func(iv IfaceV) {
		if iv.Opq != nil {
			u.ifBase[iv.Opq.S] = base
			u.ifBound[iv.Opq.S] = st.wm
		}
	})
	u.walkSlices(st, res, 0, func(s SliceV) {
		u.assume(Lt(s.Blk, st.wm))
		u.blkInfo[s.Blk.S] = blkMeta{base: base, epoch: epoch}
	})
	savedBase := u.ctxBase
	u.ctxBase = base
	// While the callee's postcondition is assumed, what lies behind a nil result
	// pointer is left as it is (an unobservable unknown) instead of reading as
	// zero: the clauses then constrain that unknown too, which is a
	// conservative extension (zero is always a witness) and lets region facts
	// such as fresh(r.f) be used before r != nil is known.
	u.noNilMerge = true
	for _, cl := range ct.Ensures {
		cf := u.clauseFunc(fn, cl.Func)
		t := u.evalPure(st, cf, all, nil).(*Term)
		u.assume(t)
	}
	u.ctxBase = savedBase
	u.noNilMerge = false
	if ct.Pure {
		u.tieToGhost(st, res, u.pureGhost(st, fn, args, in.Type()))
	}
	// vacuity guard: a contract that is true of the body cannot make a
	// feasible path infeasible
	if u.S.CheckSatT(u.Cfg.FeasMs) == "unsat" {
		if before == "sat" {
			u.Vacuous = append(u.Vacuous, fmt.Sprintf("postcondition of %s contradicts the path in %s", FuncName(fn), FuncName(fr.fn)))
			u.limit("VACUOUS: postcondition of %s is contradictory at a call site in %s", FuncName(fn), FuncName(fr.fn))
		}
		return
	}
	k(st, res)
}

// walkSlices visits every byte slice reachable from v (through pointers, up to
// a small depth).
func (u *Unit) walkSlices(st *State, v Val, depth int, f func(SliceV)) {
	if depth > 14 {
		return
	}
	switch x := v.(type) {
	case SliceV:
		if x.List == nil {
			f(x)
		} else if x.Len.IsInt {
			for i := 0; i < int(x.Len.I.Int64()) && i < 64; i++ {
				u.walkSlices(st, u.loadCell(st, u.listCell(x.List, x.LOff+i)), depth+1, f)
			}
		}
	case StructV:
		for _, e := range x.F {
			u.walkSlices(st, e, depth+1, f)
		}
	case TupleV:
		for _, e := range x.E {
			u.walkSlices(st, e, depth+1, f)
		}
	case ArrTupleV:
		for _, e := range x.E {
			u.walkSlices(st, e, depth+1, f)
		}
	case PtrV:
		if x.Cell != nil && x.Blk == nil && !(x.Nil.IsBool && x.Nil.B) {
			u.walkSlices(st, u.loadPath(st, x), depth+1, f)
		}
	case IfaceV:
		if x.Dyn != nil {
			u.walkSlices(st, x.V, depth+1, f)
		}
	}
}

var _ = token.NoPos

// walkIfaces visits the opaque interface values reachable from v.
func (u *Unit) walkIfaces(st *State, v Val, depth int, f func(IfaceV)) {
	if depth > 14 {
		return
	}
	switch x := v.(type) {
	case IfaceV:
		f(x)
	case StructV:
		for _, e := range x.F {
			u.walkIfaces(st, e, depth+1, f)
		}
	case TupleV:
		for _, e := range x.E {
			u.walkIfaces(st, e, depth+1, f)
		}
	case PtrV:
		if x.Cell != nil && x.Blk == nil && !(x.Nil.IsBool && x.Nil.B) {
			u.walkIfaces(st, u.loadPath(st, x), depth+1, f)
		}
	}
}

// pureGhost: the value a function declared `pure` returns is a function of the
// deep value of its arguments (memoised per state).  Byte slices are ghost
// sequences (contents and length, no block identity).
func (u *Unit) pureGhost(st *State, fn *ssa.Function, args []Val, t types.Type) Val {
	key := "pure:" + fn.String()
	for _, a := range args {
		key += "|" + u.valKey(st, a, 0)
	}
	if v, ok := st.memo[key]; ok {
		return v
	}
	saved := u.specMode
	u.specMode++ // ghost slices are virtual regions
	v := u.ghostVal(st, t, "pg_"+fn.Name())
	u.specMode = saved
	st.memo[key] = v
	return v
}

func (u *Unit) ghostVal(st *State, t types.Type, name string) Val {
	switch x := t.(type) {
	case *types.Tuple:
		if x.Len() == 0 {
			return nil
		}
		e := make([]Val, x.Len())
		for i := range e {
			e[i] = u.ghostVal(st, x.At(i).Type(), fmt.Sprintf("%s_%d", name, i))
		}
		return TupleV{E: e}
	}
	if isByteSlice(t) {
		l := u.newInt(name + "_len")
		u.assume(And(Le(IntLit(0), l), Le(l, BigLit(MaxLen))))
		r := u.virtRegion(st, u.newArr(name))
		return SliceV{Blk: r.Blk, Off: IntLit(0), Len: WithBounds(l, big.NewInt(0), MaxLen), Cap: l, Elem: t.Underlying().(*types.Slice).Elem()}
	}
	return u.freshVal(st, t, name, false)
}

// tieToGhost: the results of a real call to a pure function equal its ghost.
func (u *Unit) tieToGhost(st *State, res, ghost Val) {
	switch r := res.(type) {
	case TupleV:
		g, ok := ghost.(TupleV)
		if !ok {
			return
		}
		for i := range r.E {
			u.tieToGhost(st, r.E[i], g.E[i])
		}
	case SliceV:
		g, ok := ghost.(SliceV)
		if !ok || r.List != nil {
			return
		}
		ra, rb := u.regionOf(st, r.Blk), u.regionOf(st, g.Blk)
		u.assume(u.seqEqTerm(ra.C, r.Off, r.Len, rb.C, g.Off, g.Len))
	case *Term:
		if g, ok := ghost.(*Term); ok {
			u.assume(Eq(r, g))
		}
	case IfaceV:
		if g, ok := ghost.(IfaceV); ok {
			u.assume(Eq(r.Nil, g.Nil))
		}
	case ArrV:
		if g, ok := ghost.(ArrV); ok {
			u.assume(u.seqEqTerm(r.Arr, IntLit(0), IntLit(r.N), g.Arr, IntLit(0), IntLit(g.N)))
		}
	}
}

// havocReachable forgets the contents of all memory reachable from vals.
func (u *Unit) havocReachable(st *State, vals []Val) {
	rc := map[int]bool{}
	rr := map[string]bool{}
	rm := map[int]bool{}
	for _, v := range vals {
		u.reach(st, v, rc, rr, rm, 0)
	}
	for id := range rc {
		c := u.cellByID[id]
		if c == nil || strings.HasPrefix(c.Name, "g:") {
			continue
		}
		delete(st.cells, id)
		st.symCells[id] = true
	}
	for k := range rr {
		r := st.regions[k]
		if r == nil || r.Virt {
			continue
		}
		nr := *r
		nr.C = u.newArr("Ch")
		nr.Written = true
		nr.Escaped = true
		st.regions[k] = &nr
		if !r.Fresh {
			u.frameWrite(st, r, "external call")
		}
	}
	for id := range rm {
		if ms := st.maps[id]; ms == nil || ms.Global == "" {
			st.maps[id] = &MapState{Opaque: true}
		}
	}
}
