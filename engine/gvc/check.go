package gvc

import (
	"crypto/sha256"
	"encoding/json"
	"fmt"
	"os"
	"path/filepath"
	"regexp"
	"runtime"
	"sort"
	"strings"
	"sync"
	"time"

	"golang.org/x/tools/go/ssa"
)

// UnitSpec: one unit of work of a property check.
type UnitSpec struct {
	Fn   *ssa.Function
	Opt  Options
	Cfg  *Config // nil: default of the tier
	Why  string  // root | dependency
	Kind string  // function | lemma | sweep | noalias | zero
}

// KnownFinding entry of /verif/known_findings.json.
type KnownFinding struct {
	Property   string `json:"property"`
	Obligation string `json:"obligation"`
	What       string `json:"what"`
	Input      string `json:"input_class,omitempty"`
	Status     string `json:"status,omitempty"` // "" (open) | fixed
	Commit     string `json:"commit,omitempty"`
}

type CheckResult struct {
	Property   string
	Tier       string
	Units      []*UnitResult
	Obls       map[string]*Obligation // merged by name
	Order      []string
	Violations []string
	Known      []string
	Faults     []string
	Wall       float64
}

// Progress, when set, is called as each unit finishes.
var Progress func(r *UnitResult)

var lemmaPropRe = regexp.MustCompile(`^gvcL_(C\d+)_`)

// rootsFor collects the functions and lemmas that carry clauses tagged with
// the property.
func (p *Program) rootsFor(prop string) (fns []*ssa.Function, lemmas []*ssa.Function) {
	var paths []string
	for path := range p.Specs {
		paths = append(paths, path)
	}
	sort.Strings(paths)
	for _, path := range paths {
		sf := p.Specs[path]
		sp := p.ByPath[path]
		if sp == nil {
			continue
		}
		for _, key := range sf.Order {
			ct := sf.Contracts[key]
			tagged := false
			for _, cl := range append(append([]*Clause(nil), ct.Ensures...), ct.Requires...) {
				for _, t := range cl.Props {
					if t == prop {
						tagged = true
					}
				}
			}
			if !tagged {
				continue
			}
			if fn := p.LookupFunc(path, key); fn != nil {
				fns = append(fns, fn)
			}
		}
		for _, lm := range sf.Lemmas {
			for _, t := range lm.Props {
				if t == prop {
					if fn := sp.Func(lm.Func); fn != nil {
						lemmas = append(lemmas, fn)
					}
				}
			}
		}
	}
	return
}

// RunUnits executes the units in parallel.
func RunUnits(p *Program, specs []UnitSpec, cfg Config) []*UnitResult {
	out := make([]*UnitResult, len(specs))
	var wg sync.WaitGroup
	sem := make(chan struct{}, max(1, min(runtime.NumCPU(), 14)))
	for i := range specs {
		wg.Add(1)
		go func(i int) {
			defer wg.Done()
			sem <- struct{}{}
			defer func() { <-sem }()
			c := cfg
			if specs[i].Cfg != nil {
				c = *specs[i].Cfg
			}
			r := VerifyFunc(p, specs[i].Fn, c, specs[i].Opt)
			if specs[i].Kind != "" {
				r.Kind = specs[i].Kind
			}
			out[i] = r
			if Progress != nil {
				Progress(r)
			}
		}(i)
	}
	wg.Wait()
	return out
}

// closeOverContracts adds, for every contract used by a unit, the unit that
// verifies the function owning that contract (a lemma is only as good as the
// contracts it leans on).
func (p *Program) closeOverContracts(cfg Config, initial []UnitSpec) []*UnitResult {
	done := map[string]bool{}
	var all []*UnitResult
	queue := initial
	for len(queue) > 0 {
		var batch []UnitSpec
		for _, s := range queue {
			key := s.Kind + ":" + s.Fn.String()
			if done[key] {
				continue
			}
			done[key] = true
			batch = append(batch, s)
		}
		res := RunUnits(p, batch, cfg)
		all = append(all, res...)
		queue = nil
		// clauses of the units themselves that are discharged by lemmas
		for _, s := range batch {
			if s.Kind != "function" || s.Fn.Pkg == nil {
				continue
			}
			if ct := p.ContractOf(s.Fn); ct != nil {
				for _, cl := range ct.Ensures {
					if cl.ByLemma != "" {
						if lf := s.Fn.Pkg.Func("gvcL_" + cl.ByLemma); lf != nil {
							queue = append(queue, UnitSpec{Fn: lf, Opt: Options{}, Why: "lemma-backed clause", Kind: "lemma"})
						}
					}
				}
			}
		}
		used := map[string]bool{}
		for _, r := range res {
			for name := range r.Used {
				used[name] = true
			}
		}
		var names []string
		for n := range used {
			names = append(names, n)
		}
		sort.Strings(names)
		for _, n := range names {
			fn := p.funcByDisplayName(n)
			if fn == nil {
				continue
			}
			ct := p.ContractOf(fn)
			if ct != nil && ct.Trusted {
				continue
			}
			queue = append(queue, UnitSpec{Fn: fn, Opt: Options{UseRequires: true, CheckPosts: true}, Why: "dependency", Kind: "function"})
			// clauses discharged by lemmas: the lemmas join the run
			if ct != nil && fn.Pkg != nil {
				for _, cl := range ct.Ensures {
					if cl.ByLemma != "" {
						if lf := fn.Pkg.Func("gvcL_" + cl.ByLemma); lf != nil {
							queue = append(queue, UnitSpec{Fn: lf, Opt: Options{}, Why: "lemma-backed clause", Kind: "lemma"})
						}
					}
				}
			}
		}
	}
	return all
}

func (p *Program) funcByDisplayName(name string) *ssa.Function {
	if p.byName == nil {
		p.byName = map[string]*ssa.Function{}
		for _, fn := range p.AllRepoFuncs() {
			p.byName[FuncName(fn)] = fn
		}
	}
	return p.byName[name]
}

func loadKnown(dir string) []KnownFinding {
	b, err := os.ReadFile(filepath.Join(dir, "known_findings.json"))
	if err != nil {
		return nil
	}
	var k []KnownFinding
	json.Unmarshal(b, &k)
	return k
}

// merge obligations of all units by name.
func mergeObls(units []*UnitResult) (map[string]*Obligation, []string) {
	m := map[string]*Obligation{}
	var order []string
	for _, r := range units {
		for _, o := range r.Obls {
			e := m[o.Name]
			if e == nil {
				c := *o
				m[o.Name] = &c
				order = append(order, o.Name)
				continue
			}
			e.Instances += o.Instances
			e.Trivial += o.Trivial
			e.TimeS += o.TimeS
			if rank(o.Status) > rank(e.Status) {
				e.Status = o.Status
				e.Script = o.Script
				e.Trace = o.Trace
			}
			if e.Solver == "" {
				e.Solver = o.Solver
			}
		}
	}
	sort.Strings(order)
	return m, order
}

func rank(s string) int {
	switch s {
	case "proved":
		return 0
	case "unknown":
		return 1
	}
	return 2
}

// SourceDigest: sha-256 over the source files of /repo (non-test .go files).
func SourceDigest(repo string) string {
	h := sha256.New()
	var files []string
	filepath.Walk(repo, func(path string, info os.FileInfo, err error) error {
		if err != nil {
			return nil
		}
		if info.IsDir() && (info.Name() == ".git" || info.Name() == "fuzz") {
			return filepath.SkipDir
		}
		if strings.HasSuffix(path, ".go") && !strings.HasSuffix(path, "_test.go") {
			files = append(files, path)
		}
		return nil
	})
	sort.Strings(files)
	for _, f := range files {
		b, _ := os.ReadFile(f)
		fmt.Fprintf(h, "%s %d\n", strings.TrimPrefix(f, repo), len(b))
		h.Write(b)
	}
	return fmt.Sprintf("%x", h.Sum(nil))
}

var _ = time.Now
