package gvc

import (
	"encoding/json"
	"fmt"
	"go/types"
	"math/big"
	"os"
	"os/exec"
	"path/filepath"
	"regexp"
	"sort"
	"strconv"
	"strings"
	"time"

	"golang.org/x/tools/go/ssa"
)

// InTree describes one symbolic input value (by the names of its SMT leaves)
// so that a model can be turned into a Go expression.
type InTree struct {
	Kind   string    `json:"kind"`
	GoType string    `json:"type"`
	Term   string    `json:"term,omitempty"`
	Nil    string    `json:"nil,omitempty"`
	Len    string    `json:"len,omitempty"`
	Off    string    `json:"off,omitempty"`
	Cap    string    `json:"cap,omitempty"`
	Blk    string    `json:"blk,omitempty"`
	Arr    string    `json:"arr,omitempty"`
	N      int64     `json:"n,omitempty"`
	Fields []InField `json:"fields,omitempty"`
	Elems  []*InTree `json:"elems,omitempty"`
	Elem   *InTree   `json:"elem,omitempty"`
	Why    string    `json:"why,omitempty"`
}

type InField struct {
	Name string  `json:"name"`
	T    *InTree `json:"t"`
}

type replayCtx struct {
	pkg     *types.Package
	imports map[string]string // path -> name
	bad     []string
}

func (rc *replayCtx) typeStr(t types.Type) string {
	return types.TypeString(t, func(p *types.Package) string {
		if p == rc.pkg {
			return ""
		}
		rc.imports[p.Path()] = p.Name()
		return p.Name()
	})
}

// inTree snapshots v (of static type t) in state st.
func (u *Unit) inTree(st *State, rc *replayCtx, v Val, t types.Type, depth int) *InTree {
	ts := rc.typeStr(t)
	if depth > 8 {
		return &InTree{Kind: "zero", GoType: ts}
	}
	switch x := v.(type) {
	case *Term:
		if x.Sort == SBool {
			return &InTree{Kind: "bool", GoType: ts, Term: x.S}
		}
		return &InTree{Kind: "int", GoType: ts, Term: x.S}
	case SliceV:
		if x.List == nil {
			arr := ""
			if a, ok := u.inputArr[x.Blk.S]; ok {
				arr = a.S
			} else if r := st.regions[x.Blk.S]; r != nil && r.C.Base != "" {
				arr = r.C.S
			}
			return &InTree{Kind: "bytes", GoType: ts, Len: x.Len.S, Off: x.Off.S, Cap: x.Cap.S, Blk: x.Blk.S, Arr: arr}
		}
		n := &InTree{Kind: "list", GoType: ts, Len: x.Len.S, Blk: x.Blk.S}
		et := t.Underlying().(*types.Slice).Elem()
		for i := 0; i < 24; i++ {
			c := u.cellIdx[fmt.Sprintf("list%d[%d]", x.List.ID, x.LOff+i)]
			if c == nil {
				n.Elems = append(n.Elems, &InTree{Kind: "zero", GoType: rc.typeStr(et)})
				continue
			}
			if cv, ok := st.cells[c.ID]; ok {
				n.Elems = append(n.Elems, u.inTree(st, rc, cv, et, depth+1))
			} else {
				n.Elems = append(n.Elems, &InTree{Kind: "zero", GoType: rc.typeStr(et)})
			}
		}
		return n
	case StrV:
		if x.IsLit {
			return &InTree{Kind: "strlit", GoType: ts, Term: strconv.Quote(x.Lit)}
		}
		arr := ""
		if x.Arr.Base != "" {
			arr = x.Arr.S
		}
		return &InTree{Kind: "str", GoType: ts, Len: x.Len.S, Arr: arr}
	case ArrV:
		arr := ""
		if x.Arr.Base != "" {
			arr = x.Arr.S
		}
		return &InTree{Kind: "arr", GoType: ts, N: x.N, Arr: arr}
	case ArrRefV:
		arr := ""
		if a, ok := u.inputArr[x.Blk.S]; ok {
			arr = a.S
		}
		return &InTree{Kind: "arr", GoType: ts, N: x.N, Arr: arr}
	case StructV:
		n := &InTree{Kind: "struct", GoType: ts}
		for i, f := range x.F {
			fld := x.T.Field(i)
			if !fld.Exported() && fld.Pkg() != rc.pkg {
				rc.bad = append(rc.bad, "unexported field "+fld.Name()+" of another package")
			}
			name := fld.Name()
			n.Fields = append(n.Fields, InField{Name: name, T: u.inTree(st, rc, f, fld.Type(), depth+1)})
		}
		return n
	case ArrTupleV:
		n := &InTree{Kind: "arrtuple", GoType: ts}
		for _, e := range x.E {
			n.Elems = append(n.Elems, u.inTree(st, rc, e, x.T.Elem(), depth+1))
		}
		return n
	case PtrV:
		if x.Cell == nil || x.Blk != nil || len(x.Path) > 0 {
			if x.Nil.IsBool && x.Nil.B {
				return &InTree{Kind: "nil", GoType: ts}
			}
			rc.bad = append(rc.bad, "interior pointer input")
			return &InTree{Kind: "nil", GoType: ts}
		}
		n := &InTree{Kind: "ptr", GoType: ts, Nil: x.Nil.S}
		et := t.Underlying().(*types.Pointer).Elem()
		if cv, ok := st.cells[x.Cell.ID]; ok {
			n.Elem = u.inTree(st, rc, cv, et, depth+1)
		} else {
			n.Elem = &InTree{Kind: "zero", GoType: rc.typeStr(et)}
		}
		return n
	case IfaceV:
		if x.Nil.IsBool && x.Nil.B {
			return &InTree{Kind: "nil", GoType: ts}
		}
		if x.Dyn == nil {
			n := &InTree{Kind: "iface", GoType: ts, Nil: x.Nil.S}
			return n
		}
		rc.bad = append(rc.bad, "concrete interface input")
		return &InTree{Kind: "nil", GoType: ts}
	case TimeV:
		return &InTree{Kind: "time", GoType: ts, Term: x.NS.S}
	case MapV:
		return &InTree{Kind: "zero", GoType: ts, Why: "map input (nil used)"}
	}
	return &InTree{Kind: "zero", GoType: ts}
}

// collect the SMT terms whose values are needed.
func (t *InTree) terms(out map[string]bool) {
	if t == nil {
		return
	}
	for _, s := range []string{t.Term, t.Nil, t.Len, t.Off, t.Cap, t.Blk} {
		if s != "" && !isLiteralTerm(s) {
			out[s] = true
		}
	}
	for _, f := range t.Fields {
		f.T.terms(out)
	}
	for _, e := range t.Elems {
		e.terms(out)
	}
	t.Elem.terms(out)
}

func isLiteralTerm(s string) bool {
	if s == "true" || s == "false" {
		return true
	}
	_, err := strconv.ParseInt(s, 10, 64)
	return err == nil || strings.HasPrefix(s, "(- ")
}

var negRe = regexp.MustCompile(`^\(-\s+(\d+)\)$`)

func modelInt(m map[string]string, term string) (int64, bool) {
	v := term
	if mv, ok := m[term]; ok {
		v = mv
	}
	v = strings.TrimSpace(v)
	if mm := negRe.FindStringSubmatch(v); mm != nil {
		i, err := strconv.ParseInt("-"+mm[1], 10, 64)
		if err != nil {
			// may be -2^63
			if mm[1] == "9223372036854775808" {
				return -9223372036854775808, true
			}
			return 0, false
		}
		return i, true
	}
	i, err := strconv.ParseInt(v, 10, 64)
	if err != nil {
		if u64, err2 := strconv.ParseUint(v, 10, 64); err2 == nil {
			return int64(u64), true
		}
		return 0, false
	}
	return i, true
}

func modelBool(m map[string]string, term string) bool {
	v := term
	if mv, ok := m[term]; ok {
		v = mv
	}
	return strings.TrimSpace(v) == "true"
}

// byteQueries lists (select arr idx) terms needed for the contents.
func (t *InTree) byteQueries(m map[string]string, out map[string]bool) {
	if t == nil {
		return
	}
	switch t.Kind {
	case "bytes":
		if t.Arr != "" {
			l, _ := modelInt(m, t.Len)
			off, _ := modelInt(m, t.Off)
			if l > 4096 {
				l = 4096
			}
			for i := int64(0); i < l; i++ {
				out[fmt.Sprintf("(select %s %d)", t.Arr, off+i)] = true
			}
		}
	case "str":
		if t.Arr != "" {
			l, _ := modelInt(m, t.Len)
			if l > 4096 {
				l = 4096
			}
			for i := int64(0); i < l; i++ {
				out[fmt.Sprintf("(select %s %d)", t.Arr, i)] = true
			}
		}
	case "arr":
		if t.Arr != "" {
			for i := int64(0); i < t.N; i++ {
				out[fmt.Sprintf("(select %s %d)", t.Arr, i)] = true
			}
		}
	}
	for _, f := range t.Fields {
		f.T.byteQueries(m, out)
	}
	for _, e := range t.Elems {
		e.byteQueries(m, out)
	}
	t.Elem.byteQueries(m, out)
}

func byteList(m map[string]string, arr string, start, n int64) string {
	var sb strings.Builder
	for i := int64(0); i < n; i++ {
		v, _ := modelInt(m, fmt.Sprintf("(select %s %d)", arr, start+i))
		if i > 0 {
			sb.WriteString(", ")
		}
		fmt.Fprintf(&sb, "%d", uint8(v))
	}
	return sb.String()
}

// goExpr renders the value as a Go expression.
func (t *InTree) goExpr(m map[string]string) string {
	switch t.Kind {
	case "int":
		v, _ := modelInt(m, t.Term)
		if strings.HasPrefix(t.GoType, "uint") || t.GoType == "byte" {
			return fmt.Sprintf("%s(%d)", t.GoType, uint64(v))
		}
		return fmt.Sprintf("%s(%d)", t.GoType, v)
	case "bool":
		return fmt.Sprintf("%s(%v)", t.GoType, modelBool(m, t.Term))
	case "strlit":
		return fmt.Sprintf("%s(%s)", t.GoType, t.Term)
	case "bytes":
		if blk, ok := modelInt(m, t.Blk); ok && blk == 0 {
			return fmt.Sprintf("%s(nil)", t.GoType)
		}
		l, _ := modelInt(m, t.Len)
		off, _ := modelInt(m, t.Off)
		cp, _ := modelInt(m, t.Cap)
		if l > 4096 || cp > 1<<20 || off > 1<<20 {
			return "GVC_TOO_LARGE"
		}
		data := ""
		if t.Arr != "" {
			data = byteList(m, t.Arr, off, l)
		} else {
			data = strings.TrimSuffix(strings.Repeat("0, ", int(l)), ", ")
		}
		return fmt.Sprintf("%s(gvcBytes(%d, %d, []byte{%s}))", t.GoType, off, cp, data)
	case "str":
		l, _ := modelInt(m, t.Len)
		if l > 4096 {
			return "GVC_TOO_LARGE"
		}
		data := ""
		if t.Arr != "" {
			data = byteList(m, t.Arr, 0, l)
		} else {
			data = strings.TrimSuffix(strings.Repeat("0, ", int(l)), ", ")
		}
		return fmt.Sprintf("%s([]byte{%s})", t.GoType, data)
	case "arr":
		if t.Arr == "" {
			return fmt.Sprintf("%s{}", t.GoType)
		}
		return fmt.Sprintf("%s{%s}", t.GoType, byteList(m, t.Arr, 0, t.N))
	case "struct":
		var parts []string
		for _, f := range t.Fields {
			parts = append(parts, f.Name+": "+f.T.goExpr(m))
		}
		return fmt.Sprintf("%s{%s}", t.GoType, strings.Join(parts, ", "))
	case "arrtuple":
		var parts []string
		for _, e := range t.Elems {
			parts = append(parts, e.goExpr(m))
		}
		return fmt.Sprintf("%s{%s}", t.GoType, strings.Join(parts, ", "))
	case "list":
		if blk, ok := modelInt(m, t.Blk); ok && blk == 0 {
			return fmt.Sprintf("%s(nil)", t.GoType)
		}
		l, _ := modelInt(m, t.Len)
		if l > int64(len(t.Elems)) {
			return "GVC_TOO_LARGE"
		}
		var parts []string
		for i := int64(0); i < l; i++ {
			parts = append(parts, t.Elems[i].goExpr(m))
		}
		return fmt.Sprintf("%s{%s}", t.GoType, strings.Join(parts, ", "))
	case "ptr":
		if modelBool(m, t.Nil) {
			return fmt.Sprintf("(%s)(nil)", t.GoType)
		}
		et := strings.TrimPrefix(t.GoType, "*")
		return fmt.Sprintf("func() %s { v := %s; _ = %s(v); return &v }()", t.GoType, t.Elem.goExpr(m), et)
	case "nil":
		return fmt.Sprintf("(%s)(nil)", t.GoType)
	case "iface":
		if modelBool(m, t.Nil) {
			return fmt.Sprintf("(%s)(nil)", t.GoType)
		}
		if t.GoType == "error" {
			return `error(fmt.Errorf("gvc replay error"))`
		}
		return "GVC_UNSUPPORTED_IFACE"
	case "time":
		v := t.Term
		if mv, ok := m[t.Term]; ok {
			v = mv
		}
		v = strings.TrimSpace(v)
		neg := false
		if mm := negRe.FindStringSubmatch(v); mm != nil {
			neg, v = true, mm[1]
		}
		n, ok := new(big.Int).SetString(v, 10)
		if !ok {
			return "GVC_UNSUPPORTED_TIME"
		}
		if neg {
			n.Neg(n)
		}
		sec, nsec := new(big.Int).DivMod(n, big.NewInt(1000000000), new(big.Int))
		if !sec.IsInt64() {
			return "GVC_UNSUPPORTED_TIME"
		}
		return fmt.Sprintf("time.Unix(%d, %d)", sec.Int64(), nsec.Int64())
	}
	// zero value
	return fmt.Sprintf("*new(%s)", t.GoType)
}

// ReplaySpec is stored with a failed obligation so that the post-processing
// step can build the test.
type ReplaySpec struct {
	Pkg      string            `json:"pkg"`      // import path
	PkgName  string            `json:"pkg_name"`
	Dir      string            `json:"dir"`      // relative to repo root
	Func     string            `json:"func"`     // Go call target (Name or method name)
	Recv     bool              `json:"recv"`
	Lemma    bool              `json:"lemma"`
	Clause   string            `json:"clause_func,omitempty"`
	NResults int               `json:"nresults"`
	Params   []*InTree         `json:"params"`
	Imports  map[string]string `json:"imports"`
	Bad      []string          `json:"unsupported,omitempty"`
	Then     string            `json:"then_method,omitempty"` // method harness: method called on the first result afterwards
}

// snapshotReplay is called when an obligation fails on a path.
func (u *Unit) snapshotReplay(st *State, o *Obligation) {
	if u.paramVals == nil || u.Target == nil {
		return
	}
	tpkg := u.Target.Pkg
	if tpkg == nil && u.Target.Signature.Recv() != nil {
		// compiler-generated wrapper: replay in the package of the receiver type
		rt := u.Target.Signature.Recv().Type()
		if pt, ok := rt.(*types.Pointer); ok {
			rt = pt.Elem()
		}
		if n, ok := rt.(*types.Named); ok && n.Obj().Pkg() != nil {
			tpkg = u.P.Prog.Package(n.Obj().Pkg())
		}
	}
	if tpkg == nil {
		return
	}
	rc := &replayCtx{pkg: tpkg.Pkg, imports: map[string]string{}}
	rs := &ReplaySpec{Pkg: rc.pkg.Path(), PkgName: rc.pkg.Name(), Func: u.Target.Name(), Lemma: u.isSpecFile(u.Target)}
	rs.Dir = strings.TrimPrefix(strings.TrimPrefix(rc.pkg.Path(), ModPath), "/")
	rs.Recv = u.Target.Signature.Recv() != nil
	rs.NResults = u.Target.Signature.Results().Len()
	for i, p := range u.Target.Params {
		rs.Params = append(rs.Params, u.inTree(st, rc, u.paramVals[i], p.Type(), 0))
	}
	rs.Imports = rc.imports
	rs.Bad = rc.bad
	rs.Then = u.curMethod
	o.Replay = rs
}

var preludeNames = []string{"assert", "assume", "implies", "seqeq", "cat", "sub", "val", "u16", "u32", "forall", "exists", "suffix", "within", "fresh", "same", "isnil"}

// buildReplay: model -> Go test -> run against the real code.
func buildReplay(p *Program, units []*UnitResult, o *Obligation, rf *replayFile, repo string) bool {
	rs := o.Replay
	if rs == nil || o.Script == "" {
		rf.Note = "no replay specification recorded for this obligation"
		return false
	}
	if strings.Contains(o.Name, "sigvalid(") || strings.Contains(o.Name, "ishash(") || strings.Contains(o.Text, "sigvalid(") || strings.Contains(o.Text, "ishash(") {
		rf.Note = "the obligation mentions a ghost predicate (sigvalid / ishash) that executable code cannot evaluate: no replay"
		return false
	}
	// 1. scalar values
	want := map[string]bool{}
	for _, t := range rs.Params {
		t.terms(want)
	}
	model, out := queryModel(o.Script, want)
	rf.SolverOut = out
	if model == nil {
		rf.Note = "solver gave no model for the standalone query"
		return false
	}
	// 2. byte contents
	bq := map[string]bool{}
	for _, t := range rs.Params {
		t.byteQueries(model, bq)
	}
	if len(bq) > 0 {
		m2, _ := queryModelPinned(o.Script, model, want, bq)
		for k, v := range m2 {
			model[k] = v
		}
	}
	rf.Model = model
	if len(rs.Bad) > 0 {
		rf.Note = "inputs not expressible as Go literals: " + strings.Join(rs.Bad, "; ")
		return false
	}
	// 3. Go test
	var args []string
	for _, t := range rs.Params {
		e := t.goExpr(model)
		if strings.Contains(e, "GVC_") {
			rf.Note = "model value not replayable: " + e[:min(len(e), 60)]
			return false
		}
		args = append(args, e)
	}
	var sb strings.Builder
	fmt.Fprintf(&sb, "package %s\n\nimport (\n\t\"testing\"\n", rs.PkgName)
	imps := map[string]string{}
	for k, v := range rs.Imports {
		imps[k] = v
	}
	body := strings.Join(args, "\n")
	if strings.Contains(body, "fmt.") {
		imps["fmt"] = "fmt"
	}
	if strings.Contains(body, "time.") {
		imps["time"] = "time"
	}
	var ipaths []string
	for k := range imps {
		ipaths = append(ipaths, k)
	}
	sort.Strings(ipaths)
	for _, k := range ipaths {
		fmt.Fprintf(&sb, "\t%s %q\n", imps[k], k)
	}
	sb.WriteString(")\n\n")
	sb.WriteString("func gvcBytes(off, capa int, data []byte) []byte {\n\tif capa < len(data) {\n\t\tcapa = len(data)\n\t}\n\tbuf := make([]byte, off+capa)\n\tcopy(buf[off:], data)\n\treturn buf[off : off+len(data) : off+capa]\n}\n\n")
	sb.WriteString("func TestGvcReplay(t *testing.T) {\n")
	sb.WriteString("\tdefer func() {\n\t\tif r := recover(); r != nil {\n\t\t\tif _, ok := r.(gvcAssumeFailed); ok {\n\t\t\t\tt.Log(\"GVC-REPLAY-ASSUMPTION-NOT-MET\")\n\t\t\t\treturn\n\t\t\t}\n\t\t\tt.Fatalf(\"GVC-REPLAY-CONFIRMED: panic: %v\", r)\n\t\t}\n\t}()\n")
	for i, a := range args {
		fmt.Fprintf(&sb, "\ta%d := %s\n", i, a)
	}
	var names []string
	for i := range args {
		names = append(names, fmt.Sprintf("a%d", i))
	}
	call := ""
	if rs.Recv {
		call = fmt.Sprintf("a0.%s(%s)", rs.Func, strings.Join(names[1:], ", "))
	} else {
		call = fmt.Sprintf("%s(%s)", rs.Func, strings.Join(names, ", "))
	}
	var rnames []string
	for i := 0; i < rs.NResults; i++ {
		rnames = append(rnames, fmt.Sprintf("r%d", i))
	}
	switch {
	case rs.Lemma:
		fmt.Fprintf(&sb, "\t%s\n", call)
	case o.Kind == "post" && o.ClauseFunc != "":
		if len(rnames) > 0 {
			fmt.Fprintf(&sb, "\t%s := %s\n", strings.Join(rnames, ", "), call)
		} else {
			fmt.Fprintf(&sb, "\t%s\n", call)
		}
		fmt.Fprintf(&sb, "\tif !%s(%s) {\n\t\tt.Fatalf(\"GVC-REPLAY-CONFIRMED: postcondition violated: %%s\", %q)\n\t}\n", o.ClauseFunc, strings.Join(append(names, rnames...), ", "), o.Text)
	case rs.Then != "" && len(rnames) > 0:
		lhs := append([]string{"r0"}, make([]string, len(rnames)-1)...)
		for i := 1; i < len(lhs); i++ {
			lhs[i] = "_"
		}
		fmt.Fprintf(&sb, "\t%s := %s\n\tr0.%s()\n", strings.Join(lhs, ", "), call, rs.Then)
	default:
		if len(rnames) > 0 {
			var blanks []string
			for range rnames {
				blanks = append(blanks, "_")
			}
			fmt.Fprintf(&sb, "\t%s = %s\n", strings.Join(blanks, ", "), call)
		} else {
			fmt.Fprintf(&sb, "\t%s\n", call)
		}
	}
	sb.WriteString("\tt.Log(\"GVC-REPLAY-NOT-REPRODUCED\")\n}\n")
	rf.GoTest = sb.String()
	rf.TestPkg = rs.Dir
	res := RunReplay(p, repo, rs.Dir, rf.GoTest)
	rf.Replayed = res
	return strings.Contains(res, "GVC-REPLAY-CONFIRMED")
}

// RunReplay injects the test (and the generated spec files) with -overlay and
// runs it against the real code.
func RunReplay(p *Program, repo, dir, test string) string {
	tmp, err := os.MkdirTemp("", "gvc-replay-")
	if err != nil {
		return "cannot create temp dir"
	}
	defer os.RemoveAll(tmp)
	ov := map[string]map[string]string{"Replace": {}}
	i := 0
	for path, sf := range p.Specs {
		i++
		f := filepath.Join(tmp, fmt.Sprintf("spec%d.go", i))
		os.WriteFile(f, []byte(sf.GoSource()), 0o644)
		rel := strings.TrimPrefix(strings.TrimPrefix(path, ModPath), "/")
		ov["Replace"][filepath.Join(repo, rel, "zz_gvc_spec.go")] = f
	}
	tf := filepath.Join(tmp, "replay_test.go")
	os.WriteFile(tf, []byte(test), 0o644)
	ov["Replace"][filepath.Join(repo, dir, "zz_gvc_replay_test.go")] = tf
	ob, _ := json.Marshal(ov)
	of := filepath.Join(tmp, "ov.json")
	os.WriteFile(of, ob, 0o644)
	cmd := exec.Command("go", "test", "-overlay", of, "-vet=off", "-count=1", "-timeout", "60s", "-run", "^TestGvcReplay$", "-v", "./"+dir+"/")
	cmd.Dir = repo
	cmd.Env = os.Environ()
	done := make(chan struct{})
	var out []byte
	go func() { out, _ = cmd.CombinedOutput(); close(done) }()
	select {
	case <-done:
	case <-time.After(150 * time.Second):
		if cmd.Process != nil {
			cmd.Process.Kill()
		}
		return "replay timed out"
	}
	s := string(out)
	if len(s) > 3000 {
		s = s[:3000]
	}
	return s
}

// queryModel runs the standalone script with get-value for the wanted terms.
func queryModel(script string, want map[string]bool) (map[string]string, string) {
	var ts []string
	for t := range want {
		ts = append(ts, t)
	}
	sort.Strings(ts)
	// prefer a small counterexample: first ask for a model in which every
	// input length / capacity / offset is at most 2048 (replayable literals),
	// then for any model
	small := ""
	for _, t := range ts {
		if smallTermRe.MatchString(t) {
			small += fmt.Sprintf("(assert (<= %s 2048))\n", t)
		}
	}
	variants := []string{script}
	if idx := strings.LastIndex(script, "(check-sat)"); idx >= 0 && small != "" {
		variants = []string{script[:idx] + small + script[idx:], script}
	}
	for _, base := range variants {
		sc := base
		for _, t := range ts {
			sc += fmt.Sprintf("(get-value (%s))\n", t)
		}
		for _, bin := range []string{"z3-new", "z3"} {
			out := runSolverRaw(bin, sc, 30*time.Second)
			lines := strings.Split(strings.TrimSpace(out), "\n")
			if len(lines) == 0 || strings.TrimSpace(lines[0]) != "sat" {
				continue
			}
			m := parseValues(strings.Join(lines[1:], "\n"), ts)
			return m, "sat (" + bin + ")"
		}
	}
	return nil, "no sat answer from the standalone solvers"
}

var smallTermRe = regexp.MustCompile(`^[A-Za-z_][A-Za-z0-9_.]*_(len|cap|off)![0-9]+$`)

// queryModelPinned re-runs with the scalar part of the model pinned and asks
// for the byte contents.
func queryModelPinned(script string, model map[string]string, pinned map[string]bool, want map[string]bool) (map[string]string, string) {
	idx := strings.LastIndex(script, "(check-sat)")
	if idx < 0 {
		return nil, ""
	}
	var sb strings.Builder
	sb.WriteString(script[:idx])
	var ps []string
	for t := range pinned {
		ps = append(ps, t)
	}
	sort.Strings(ps)
	for _, t := range ps {
		if v, ok := model[t]; ok {
			fmt.Fprintf(&sb, "(assert (= %s %s))\n", t, v)
		}
	}
	sb.WriteString("(check-sat)\n")
	var ts []string
	for t := range want {
		ts = append(ts, t)
	}
	sort.Strings(ts)
	for _, t := range ts {
		fmt.Fprintf(&sb, "(get-value (%s))\n", t)
	}
	for _, bin := range []string{"z3-new", "z3"} {
		out := runSolverRaw(bin, sb.String(), 30*time.Second)
		lines := strings.Split(strings.TrimSpace(out), "\n")
		if len(lines) == 0 || strings.TrimSpace(lines[0]) != "sat" {
			continue
		}
		return parseValues(strings.Join(lines[1:], "\n"), ts), "sat"
	}
	return nil, ""
}

func runSolverRaw(bin, script string, timeout time.Duration) string {
	f, err := os.CreateTemp("", "gvc-*.smt2")
	if err != nil {
		return ""
	}
	defer os.Remove(f.Name())
	f.WriteString(script)
	f.Close()
	cmd := exec.Command(bin, fmt.Sprintf("-T:%d", int(timeout.Seconds())), f.Name())
	out, _ := cmd.Output()
	return string(out)
}

// parseValues parses a sequence of ((term value)) answers in order.
func parseValues(out string, terms []string) map[string]string {
	m := map[string]string{}
	// split top-level s-expressions
	depth := 0
	start := -1
	var exprs []string
	for i := 0; i < len(out); i++ {
		switch out[i] {
		case '(':
			if depth == 0 {
				start = i
			}
			depth++
		case ')':
			depth--
			if depth == 0 && start >= 0 {
				exprs = append(exprs, out[start:i+1])
				start = -1
			}
		}
	}
	for i, e := range exprs {
		if i >= len(terms) {
			break
		}
		if strings.HasPrefix(e, "(error") {
			continue
		}
		inner := strings.TrimSpace(e[1 : len(e)-1]) // (term value)
		if len(inner) < 2 {
			continue
		}
		inner = strings.TrimSpace(inner[1 : len(inner)-1])
		m[terms[i]] = lastSexp(inner)
	}
	return m
}

var _ = ssa.Function{}

// ReplayFile re-runs a stored replay against the real code.
func ReplayFile(repo, file string) int {
	b, err := os.ReadFile(file)
	if err != nil {
		fmt.Println(err)
		return 2
	}
	var rf replayFile
	if err := json.Unmarshal(b, &rf); err != nil {
		fmt.Println(err)
		return 2
	}
	fmt.Printf("obligation: %s\nclause: %s\nsolver: %s\n", rf.Obligation, rf.Clause, rf.SolverOut)
	if rf.GoTest == "" {
		fmt.Println("no executable replay stored (", rf.Note, ")")
		return 0
	}
	p, err := Load(repo, true)
	if err != nil {
		fmt.Println(err)
		return 2
	}
	res := RunReplay(p, repo, rf.TestPkg, rf.GoTest)
	fmt.Println(res)
	if strings.Contains(res, "GVC-REPLAY-CONFIRMED") {
		fmt.Println("the real code exhibits the failure")
		return 1
	}
	fmt.Println("the real code does not exhibit the failure on this input")
	return 0
}
