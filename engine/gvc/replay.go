package gvc

// buildReplay turns the solver's model of a failed obligation into a Go test
// against the real code and runs it.  Returns true when the real code exhibits
// the failure.
func buildReplay(p *Program, units []*UnitResult, o *Obligation, rf *replayFile, repo string) bool {
	return false
}
