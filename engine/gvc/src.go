package gvc

import (
	"go/ast"
	"go/token"
	"os"
	"strings"
	"sync"

	"golang.org/x/tools/go/ssa"
)

var (
	fileCache   = map[string][]byte{}
	fileCacheMu sync.Mutex
)

func (u *Unit) fileText(name string) []byte {
	fileCacheMu.Lock()
	defer fileCacheMu.Unlock()
	if b, ok := fileCache[name]; ok {
		return b
	}
	b, _ := os.ReadFile(name)
	fileCache[name] = b
	return b
}

// srcAt returns the source text of the expression the SSA instruction at pos
// was generated from (index / slice / selector / call / star expression).
func (u *Unit) srcAt(fn *ssa.Function, pos token.Pos, def string) string {
	if !pos.IsValid() || u.P == nil || u.P.Fset == nil {
		return def
	}
	root := fn
	for root.Parent() != nil {
		root = root.Parent()
	}
	m := u.srcText[root]
	if m == nil {
		m = map[int]string{}
		u.srcText[root] = m
		syn := root.Syntax()
		if syn != nil {
			p0 := u.P.Fset.Position(syn.Pos())
			txt := u.fileText(p0.Filename)
			if strings.HasSuffix(p0.Filename, "zz_gvc_spec.go") {
				txt = nil
			}
			grab := func(n ast.Node) string {
				a := u.P.Fset.Position(n.Pos()).Offset
				b := u.P.Fset.Position(n.End()).Offset
				if txt == nil || a < 0 || b > len(txt) || a > b {
					return ""
				}
				return string(txt[a:b])
			}
			ast.Inspect(syn, func(n ast.Node) bool {
				switch x := n.(type) {
				case *ast.IndexExpr:
					m[int(x.Lbrack)] = grab(x)
				case *ast.SliceExpr:
					m[int(x.Lbrack)] = grab(x)
				case *ast.StarExpr:
					m[int(x.Star)] = grab(x)
				case *ast.SelectorExpr:
					if _, ok := m[int(x.Sel.Pos())]; !ok {
						m[int(x.Sel.Pos())] = grab(x)
					}
				case *ast.CallExpr:
					s := grab(x.Fun)
					m[int(x.Lparen)] = s + "(…)"
				case *ast.TypeAssertExpr:
					m[int(x.Lparen)] = grab(x)
				case *ast.BinaryExpr:
					m[int(x.OpPos)] = grab(x)
				case *ast.UnaryExpr:
					m[int(x.OpPos)] = grab(x)
				}
				return true
			})
		}
	}
	if s, ok := m[int(pos)]; ok && s != "" {
		return s
	}
	if def != "" {
		return def
	}
	p := u.P.Fset.Position(pos)
	return "@" + itoa(p.Line)
}

func itoa(i int) string {
	if i == 0 {
		return "0"
	}
	neg := i < 0
	if neg {
		i = -i
	}
	var b []byte
	for i > 0 {
		b = append([]byte{byte('0' + i%10)}, b...)
		i /= 10
	}
	if neg {
		return "-" + string(b)
	}
	return string(b)
}
