package gvc

import (
	"fmt"
	"math/big"
	"strings"
	"sync/atomic"
)

// Sort of an SMT term.
type Sort int

const (
	SInt Sort = iota
	SBool
	SArr // (Array Int Int)
)

func (s Sort) String() string {
	switch s {
	case SInt:
		return "Int"
	case SBool:
		return "Bool"
	default:
		return "(Array Int Int)"
	}
}

// Term is an immutable SMT term. Terms are rendered eagerly; large terms are
// replaced by named constants (see Ctx.Name) so that the text stays a DAG.
type Term struct {
	S    string
	Sort Sort
	// constant folding support
	IsInt  bool     // integer literal
	I      *big.Int // value if IsInt
	IsBool bool     // boolean literal
	B      bool
	// optional interval known to contain the value (executor-side analysis used
	// only to skip wrap-around encodings that cannot trigger)
	Lo, Hi *big.Int
	// derived array (executor-side): contents are given by Fn; such a term is
	// never sent to the solver, every read is expanded (read-over-write).
	Fn func(idx *Term) *Term
	// for block terms of the form ite(c, 0, b): the block to resolve reads
	// against (a nil slice is never read)
	BlkOf *Term
	// Base: name of the SMT array constant when this array term is a base
	// (uninterpreted) array; reads of it are (select Base idx)
	Base string
	// Conj: the conjuncts of an (and ...) term; Segs: for the contents of a
	// buffer built by successive appends, the boundaries of the appended pieces
	Conj []*Term
	Segs []*Term
	// lin: canonical linear form of an integer term built by Add/Sub/Mul-by-
	// constant (so that (x+32+k)-(x+32) is k, syntactically)
	lin *linForm
	// iteArgs: (c, a, b) of an integer (ite c a b) with literal branches, so that
	// (= (ite c 1 0) 1) folds to c (subtle.ConstantTimeCompare(...) == 1)
	iteArgs []*Term
}

type linAtom struct {
	t *Term
	k *big.Int
}

type linForm struct {
	c *big.Int
	a []linAtom // sorted by t.S, no zero coefficients
}

var bigZero = big.NewInt(0)

func linOf(t *Term) *linForm {
	if t.IsInt {
		return &linForm{c: t.I}
	}
	if t.lin != nil {
		return t.lin
	}
	return &linForm{c: bigZero, a: []linAtom{{t, bigOne}}}
}

// linComb returns x + sign*y.
func linComb(x, y *linForm, sign int64) *linForm {
	sg := big.NewInt(sign)
	r := &linForm{c: new(big.Int).Add(x.c, new(big.Int).Mul(sg, y.c))}
	i, j := 0, 0
	for i < len(x.a) || j < len(y.a) {
		switch {
		case j >= len(y.a) || (i < len(x.a) && x.a[i].t.S < y.a[j].t.S):
			r.a = append(r.a, x.a[i])
			i++
		case i >= len(x.a) || y.a[j].t.S < x.a[i].t.S:
			r.a = append(r.a, linAtom{y.a[j].t, new(big.Int).Mul(sg, y.a[j].k)})
			j++
		default:
			k := new(big.Int).Add(x.a[i].k, new(big.Int).Mul(sg, y.a[j].k))
			if k.Sign() != 0 {
				r.a = append(r.a, linAtom{x.a[i].t, k})
			}
			i++
			j++
		}
	}
	return r
}

func linScale(x *linForm, k *big.Int) *linForm {
	r := &linForm{c: new(big.Int).Mul(x.c, k)}
	if k.Sign() == 0 {
		return r
	}
	for _, a := range x.a {
		r.a = append(r.a, linAtom{a.t, new(big.Int).Mul(a.k, k)})
	}
	return r
}

// linTerm builds the canonical term of a linear form.
func linTerm(f *linForm) *Term {
	if len(f.a) == 0 {
		return BigLit(f.c)
	}
	if len(f.a) == 1 && f.c.Sign() == 0 && f.a[0].k.Cmp(bigOne) == 0 {
		return f.a[0].t
	}
	var parts []string
	n := 0
	for _, a := range f.a {
		switch {
		case a.k.Cmp(bigOne) == 0:
			parts = append(parts, a.t.S)
		default:
			parts = append(parts, "(* "+BigLit(a.k).S+" "+a.t.S+")")
		}
		n += len(a.t.S) + 8
	}
	if f.c.Sign() != 0 {
		parts = append(parts, BigLit(f.c).S)
	}
	if n > 400000 {
		panic("gvc: term too large (engine limit)")
	}
	var t *Term
	if len(parts) == 1 {
		t = &Term{S: parts[0], Sort: SInt}
	} else {
		t = &Term{S: "(+ " + strings.Join(parts, " ") + ")", Sort: SInt}
	}
	t.lin = f
	return t
}


var narr int64

func nextArr() int64 { return atomic.AddInt64(&narr, 1) }

// MkArr builds a derived array whose element at idx is fn(idx).
func MkArr(fn func(idx *Term) *Term) *Term {
	return &Term{S: fmt.Sprintf("<arr#%d>", nextArr()), Sort: SArr, Fn: fn}
}

// ConstArr: every element equals v.
func ConstArr(v *Term) *Term { return MkArr(func(*Term) *Term { return v }) }

// WithBounds returns a copy of t annotated with an interval.
func WithBounds(t *Term, lo, hi *big.Int) *Term {
	if t.IsInt {
		return t
	}
	n := *t
	n.Lo, n.Hi = lo, hi
	return &n
}

func bounds(t *Term) (lo, hi *big.Int) {
	if t.IsInt {
		return t.I, t.I
	}
	return t.Lo, t.Hi
}

func addB(a, b *big.Int) *big.Int {
	if a == nil || b == nil {
		return nil
	}
	return new(big.Int).Add(a, b)
}

func subB(a, b *big.Int) *big.Int {
	if a == nil || b == nil {
		return nil
	}
	return new(big.Int).Sub(a, b)
}

func (t *Term) String() string { return t.S }

var (
	TTrue  = &Term{S: "true", Sort: SBool, IsBool: true, B: true}
	TFalse = &Term{S: "false", Sort: SBool, IsBool: true, B: false}
)

func IntLit(v int64) *Term { return BigLit(big.NewInt(v)) }

func BigLit(v *big.Int) *Term {
	var s string
	if v.Sign() < 0 {
		s = "(- " + new(big.Int).Neg(v).String() + ")"
	} else {
		s = v.String()
	}
	return &Term{S: s, Sort: SInt, IsInt: true, I: new(big.Int).Set(v)}
}

func BoolLit(b bool) *Term {
	if b {
		return TTrue
	}
	return TFalse
}

func Const(name string, s Sort) *Term { return &Term{S: name, Sort: s} }

func app(sort Sort, op string, args ...*Term) *Term {
	var sb strings.Builder
	sb.WriteByte('(')
	sb.WriteString(op)
	for _, a := range args {
		sb.WriteByte(' ')
		sb.WriteString(a.S)
	}
	sb.WriteByte(')')
	if sb.Len() > 400000 {
		panic("gvc: term too large (engine limit)")
	}
	return &Term{S: sb.String(), Sort: sort}
}

func Add(a, b *Term) *Term {
	if a.IsInt && b.IsInt {
		return BigLit(new(big.Int).Add(a.I, b.I))
	}
	if a.IsInt && a.I.Sign() == 0 {
		return b
	}
	if b.IsInt && b.I.Sign() == 0 {
		return a
	}
	la, lb := linOf(a), linOf(b)
	var r *Term
	if len(la.a)+len(lb.a) <= 16 {
		r = linTerm(linComb(la, lb, 1))
		if r.IsInt || r.lin == nil {
			return r
		}
		r = &Term{S: r.S, Sort: SInt, lin: r.lin}
	} else {
		r = app(SInt, "+", a, b)
	}
	al, ah := bounds(a)
	bl, bh := bounds(b)
	r.Lo, r.Hi = addB(al, bl), addB(ah, bh)
	return r
}

func Sub(a, b *Term) *Term {
	if a.IsInt && b.IsInt {
		return BigLit(new(big.Int).Sub(a.I, b.I))
	}
	if b.IsInt && b.I.Sign() == 0 {
		return a
	}
	if a.S == b.S {
		return IntLit(0)
	}
	la, lb := linOf(a), linOf(b)
	var r *Term
	if len(la.a)+len(lb.a) <= 16 {
		r = linTerm(linComb(la, lb, -1))
		if r.IsInt || r.lin == nil {
			return r
		}
		r = &Term{S: r.S, Sort: SInt, lin: r.lin}
	} else {
		r = app(SInt, "-", a, b)
	}
	al, ah := bounds(a)
	bl, bh := bounds(b)
	r.Lo, r.Hi = subB(al, bh), subB(ah, bl)
	return r
}

func Neg(a *Term) *Term {
	if a.IsInt {
		return BigLit(new(big.Int).Neg(a.I))
	}
	return app(SInt, "-", a)
}

func Mul(a, b *Term) *Term {
	if a.IsInt && b.IsInt {
		return BigLit(new(big.Int).Mul(a.I, b.I))
	}
	if a.IsInt && a.I.Sign() == 0 || b.IsInt && b.I.Sign() == 0 {
		return IntLit(0)
	}
	if a.IsInt && a.I.Cmp(big.NewInt(1)) == 0 {
		return b
	}
	if b.IsInt && b.I.Cmp(big.NewInt(1)) == 0 {
		return a
	}
	var r *Term
	if a.IsInt || b.IsInt {
		c, x := a, b
		if b.IsInt {
			c, x = b, a
		}
		lx := linOf(x)
		if len(lx.a) <= 16 {
			lt := linTerm(linScale(lx, c.I))
			if lt.IsInt {
				return lt
			}
			r = &Term{S: lt.S, Sort: SInt, lin: lt.lin}
		}
	}
	if r == nil {
		r = app(SInt, "*", a, b)
	}
	if a.IsInt || b.IsInt {
		c, x := a, b
		if b.IsInt {
			c, x = b, a
		}
		xl, xh := bounds(x)
		if xl != nil && xh != nil {
			p1 := new(big.Int).Mul(c.I, xl)
			p2 := new(big.Int).Mul(c.I, xh)
			if p1.Cmp(p2) > 0 {
				p1, p2 = p2, p1
			}
			r.Lo, r.Hi = p1, p2
		}
	}
	return r
}

func Eq(a, b *Term) *Term {
	if a.Sort == SArr {
		panic("gvc: equality on array terms")
	}
	if a.IsInt && b.IsInt {
		return BoolLit(a.I.Cmp(b.I) == 0)
	}
	if a.IsBool && b.IsBool {
		return BoolLit(a.B == b.B)
	}
	if a.S == b.S {
		return TTrue
	}
	if b.iteArgs != nil && a.IsInt {
		a, b = b, a
	}
	if a.iteArgs != nil && b.IsInt {
		x, y := a.iteArgs[1].I.Cmp(b.I) == 0, a.iteArgs[2].I.Cmp(b.I) == 0
		switch {
		case x && !y:
			return a.iteArgs[0]
		case !x && y:
			return Not(a.iteArgs[0])
		case !x && !y:
			return TFalse
		}
	}
	if a.Sort == SBool {
		if a.IsBool {
			if a.B {
				return b
			}
			return Not(b)
		}
		if b.IsBool {
			if b.B {
				return a
			}
			return Not(a)
		}
	}
	return app(SBool, "=", a, b)
}

func Neq(a, b *Term) *Term { return Not(Eq(a, b)) }

func Lt(a, b *Term) *Term {
	if a.IsInt && b.IsInt {
		return BoolLit(a.I.Cmp(b.I) < 0)
	}
	if a.S == b.S {
		return TFalse
	}
	return app(SBool, "<", a, b)
}

func Le(a, b *Term) *Term {
	if a.IsInt && b.IsInt {
		return BoolLit(a.I.Cmp(b.I) <= 0)
	}
	if a.S == b.S {
		return TTrue
	}
	return app(SBool, "<=", a, b)
}

func Gt(a, b *Term) *Term { return Lt(b, a) }
func Ge(a, b *Term) *Term { return Le(b, a) }

func Not(a *Term) *Term {
	if a.IsBool {
		return BoolLit(!a.B)
	}
	if strings.HasPrefix(a.S, "(not ") {
		return &Term{S: a.S[5 : len(a.S)-1], Sort: SBool}
	}
	return app(SBool, "not", a)
}

func And(ts ...*Term) *Term {
	var keep []*Term
	for _, t := range ts {
		if t.IsBool {
			if !t.B {
				return TFalse
			}
			continue
		}
		keep = append(keep, t)
	}
	switch len(keep) {
	case 0:
		return TTrue
	case 1:
		return keep[0]
	}
	r := app(SBool, "and", keep...)
	for _, k := range keep {
		if len(k.Conj) > 0 {
			r.Conj = append(r.Conj, k.Conj...)
		} else {
			r.Conj = append(r.Conj, k)
		}
	}
	return r
}

func Or(ts ...*Term) *Term {
	var keep []*Term
	for _, t := range ts {
		if t.IsBool {
			if t.B {
				return TTrue
			}
			continue
		}
		keep = append(keep, t)
	}
	switch len(keep) {
	case 0:
		return TFalse
	case 1:
		return keep[0]
	}
	return app(SBool, "or", keep...)
}

func Implies(a, b *Term) *Term {
	if a.IsBool {
		if a.B {
			return b
		}
		return TTrue
	}
	if b.IsBool {
		if b.B {
			return TTrue
		}
		return Not(a)
	}
	return app(SBool, "=>", a, b)
}

func Ite(c, a, b *Term) *Term {
	if c.IsBool {
		if c.B {
			return a
		}
		return b
	}
	if a.S == b.S {
		return a
	}
	if a.Sort == SBool {
		if a.IsBool && b.IsBool {
			if a.B {
				return c
			}
			return Not(c)
		}
	}
	if a.Sort == SArr {
		return MkArr(func(i *Term) *Term { return Ite(c, Select(a, i), Select(b, i)) })
	}
	r := app(a.Sort, "ite", c, a, b)
	if a.Sort == SInt && a.IsInt && b.IsInt {
		r.iteArgs = []*Term{c, a, b}
	}
	if a.Sort == SInt {
		al, ah := bounds(a)
		bl, bh := bounds(b)
		if al != nil && bl != nil {
			if al.Cmp(bl) < 0 {
				r.Lo = al
			} else {
				r.Lo = bl
			}
		}
		if ah != nil && bh != nil {
			if ah.Cmp(bh) > 0 {
				r.Hi = ah
			} else {
				r.Hi = bh
			}
		}
	}
	return r
}

func Select(arr, i *Term) *Term {
	if arr.Fn != nil {
		return arr.Fn(i)
	}
	return app(SInt, "select", arr, i)
}

// Lambda builds (lambda ((v Int)) body) of array sort.
func Lambda(v string, body *Term) *Term {
	return &Term{S: "(lambda ((" + v + " Int)) " + body.S + ")", Sort: SArr}
}

func Forall(v string, body *Term) *Term {
	if body.IsBool {
		return body
	}
	return &Term{S: "(forall ((" + v + " Int)) " + body.S + ")", Sort: SBool}
}

func Exists(v string, body *Term) *Term {
	if body.IsBool {
		return body
	}
	return &Term{S: "(exists ((" + v + " Int)) " + body.S + ")", Sort: SBool}
}

// UF application (uninterpreted function declared by the caller).
func App(sort Sort, fn string, args ...*Term) *Term { return app(sort, fn, args...) }

func pow2(n uint) *big.Int { return new(big.Int).Lsh(big.NewInt(1), n) }

func fmtName(prefix string, n int) string { return fmt.Sprintf("%s!%d", prefix, n) }
