package gvc

import (
	"fmt"
	"go/types"
	"sort"
	"strings"

	"golang.org/x/tools/go/ssa"
)

// Val is a symbolic value kept on the executor's side.  Scalars (all integer
// kinds, bool) are *Term; everything else is one of the structs below whose
// leaves are *Term.
type Val interface{}

// SliceV: Go slice header.  Byte slices point into a byte Region identified by
// the Blk term; slices of other element types point into an executor-side list.
type SliceV struct {
	Blk, Off, Len, Cap *Term
	Elem               types.Type
	List               *ListObj // non-byte element type
	LOff               int
}

// ListObj identity of a backing array of non-byte elements.
type ListObj struct {
	ID   int
	Elem types.Type
	Sym  bool // elements not yet written are symbolic (input) rather than zero
	New  bool // symbolic list created during execution (result of a call), not an input
}

type StrV struct {
	Arr   *Term
	Len   *Term
	IsLit bool
	Lit   string
	// Fmt: the string is the result of formatting this format string whose
	// verbs are all numeric (%d, %x, %v of integers are not distinguished: only
	// formats whose verbs are %d/%x/%c-free numerics are recorded)
	Fmt string
}

// ArrV is a [N]byte value.
type ArrV struct {
	Arr *Term
	N   int64
}

// ArrTupleV is a [N]T value for non-byte T (small N).
type ArrTupleV struct {
	E []Val
	T *types.Array
}

// ArrRefV marks a byte array inside a cell whose contents live in a Region
// (because a slice of it has been taken).
type ArrRefV struct {
	Blk *Term
	N   int64
}

type StructV struct {
	F []Val
	T *types.Struct
}

type TupleV struct{ E []Val }

// Cell is the identity of a mutable memory location holding a whole value.
type Cell struct {
	ID   int
	T    types.Type
	Sym  bool // unwritten content is symbolic (reachable from inputs) rather than zero
	Name string
	Old  bool // existed before the function under verification was entered
}

type PtrV struct {
	Nil  *Term // Bool: pointer is nil
	Cell *Cell
	Path []int
	// pointer to one byte inside a region
	Blk, Idx *Term
	// pointer to element Idx (symbolic) of a byte array located at Cell/Path
	ElemIdx *Term
	Elem    types.Type
}

type IfaceV struct {
	Nil *Term      // Bool
	Dyn types.Type // concrete dynamic type when known
	V   Val        // payload when Dyn known
	Opq *Term      // Int identity of an opaque interface value
	ErrLit string  // for errors built by oops/fmt/errors.New: the format literal
	Wraps []Val    // %w arguments
	Sentinel *ssa.Global // package-level error variable this value was loaded from
	Created bool // built on this path by an error constructor
}

type FuncV struct {
	Fn   *ssa.Function
	Bind []Val
	B    *ssa.Builtin
}

type MapV struct {
	ID     int
	Global *ssa.Global
	Opaque bool
}

// OpaqueV stands for any value the engine does not model (time.Time aside).
type OpaqueV struct {
	ID *Term
	T  types.Type
}

func isByte(t types.Type) bool {
	b, ok := t.Underlying().(*types.Basic)
	return ok && (b.Kind() == types.Uint8)
}

func isIntKind(t types.Type) bool {
	b, ok := t.Underlying().(*types.Basic)
	return ok && b.Info()&types.IsInteger != 0
}

func isBoolKind(t types.Type) bool {
	b, ok := t.Underlying().(*types.Basic)
	return ok && b.Info()&types.IsBoolean != 0
}

func isStringKind(t types.Type) bool {
	b, ok := t.Underlying().(*types.Basic)
	return ok && b.Info()&types.IsString != 0
}

// intRange returns (lo, hi, bits, signed) of an integer type.
func intRange(t types.Type) (lo, hi *Term, bits uint, signed bool) {
	b := t.Underlying().(*types.Basic)
	switch b.Kind() {
	case types.Int8:
		bits, signed = 8, true
	case types.Int16:
		bits, signed = 16, true
	case types.Int32:
		bits, signed = 32, true
	case types.Int, types.Int64, types.UntypedInt, types.UntypedRune:
		bits, signed = 64, true
	case types.Uint8:
		bits = 8
	case types.Uint16:
		bits = 16
	case types.Uint32:
		bits = 32
	case types.Uint, types.Uint64, types.Uintptr:
		bits = 64
	default:
		bits, signed = 64, true
	}
	if signed {
		h := pow2(bits - 1)
		return BigLit(h.Neg(h)), BigLit(pow2(bits - 1).Sub(pow2(bits-1), bigOne)), bits, true
	}
	return IntLit(0), BigLit(pow2(bits).Sub(pow2(bits), bigOne)), bits, false
}

// Region is the backing store of byte slices / byte arrays.
type Region struct {
	Blk   *Term
	C     *Term // contents, (Array Int Int), indexed by absolute offset inside the block
	Base  *Term // own base array of a block returned by a contract call
	Written bool // contents were updated after creation
	// Escaped: a second reference to this block may exist (a slice of it was
	// re-sliced, stored, converted or passed to a call).  While a fresh block
	// has not escaped, the slice being appended to is its only reference, so
	// whether append extends it in place or reallocates cannot be observed.
	Escaped bool
	Fresh bool  // allocated on this path after function entry
	Input bool  // reachable from the parameters at entry
	Virt  bool  // ghost sequence (spec function result)
}

type Edge struct {
	Other string
	Cond  *Term
}

// State is the mutable symbolic state of one path.
type State struct {
	cells   map[int]Val
	regions map[string]*Region
	order   []string
	edges   map[string][]Edge
	canon   map[string]string // alternative block terms -> canonical region key
	wm      *Term // current allocation watermark
	nalloc  int   // allocations since wm
	memo    map[string]Val
	written bool // some pre-existing memory was written (frame)
	lists   map[int]*Term // list id -> (unused) placeholder for future
	depth   int
	dead    bool
	trace   []string
	visits  map[string]int
	maps    map[int]*MapState
	symCells map[int]bool // cells whose content was havocked (materialised lazily)
}

func (s *State) Clone() *State {
	n := &State{
		cells:   make(map[int]Val, len(s.cells)),
		regions: make(map[string]*Region, len(s.regions)),
		order:   append([]string(nil), s.order...),
		edges:   make(map[string][]Edge, len(s.edges)),
		canon:   make(map[string]string, len(s.canon)),
		wm:      s.wm, nalloc: s.nalloc,
		memo:    make(map[string]Val, len(s.memo)),
		written: s.written,
		depth:   s.depth,
		trace:   s.trace[:len(s.trace):len(s.trace)],
		visits:  make(map[string]int, len(s.visits)),
	}
	for k, v := range s.visits {
		n.visits[k] = v
	}
	n.symCells = make(map[int]bool, len(s.symCells))
	for k, v := range s.symCells {
		n.symCells[k] = v
	}
	n.maps = make(map[int]*MapState, len(s.maps))
	for k, v := range s.maps {
		n.maps[k] = v
	}
	for k, v := range s.cells {
		n.cells[k] = v
	}
	for k, v := range s.regions {
		n.regions[k] = v
	}
	for k, v := range s.edges {
		n.edges[k] = v[:len(v):len(v)]
	}
	for k, v := range s.memo {
		n.memo[k] = v
	}
	for k, v := range s.canon {
		n.canon[k] = v
	}
	return n
}

// valKey renders a value structurally (used for memoisation of pure calls).
func (u *Unit) valKey(st *State, v Val, depth int) string {
	if depth > 6 {
		return "…"
	}
	switch x := v.(type) {
	case nil:
		return "nil"
	case *Term:
		return x.S
	case SliceV:
		if x.List != nil {
			var sb strings.Builder
			fmt.Fprintf(&sb, "list%d+%d[%s]{", x.List.ID, x.LOff, x.Len.S)
			if x.Len.IsInt {
				n := int(x.Len.I.Int64())
				for i := 0; i < n && i < 64; i++ {
					c := u.listCell(x.List, x.LOff+i)
					sb.WriteString(u.valKey(st, u.loadCell(st, c), depth+1))
					sb.WriteByte(',')
				}
			}
			sb.WriteByte('}')
			return sb.String()
		}
		c := "?"
		if r := st.regions[x.Blk.S]; r != nil {
			c = r.C.S
		}
		return fmt.Sprintf("sl(%s,%s,%s,%s|%s)", x.Blk.S, x.Off.S, x.Len.S, x.Cap.S, c)
	case StrV:
		if x.IsLit {
			return fmt.Sprintf("lit(%q)", x.Lit)
		}
		return fmt.Sprintf("str(%s,%s)", x.Arr.S, x.Len.S)
	case ArrV:
		return "arr(" + x.Arr.S + ")"
	case ArrRefV:
		if r := st.regions[x.Blk.S]; r != nil {
			return "arr(" + r.C.S + ")"
		}
		return "arrref(" + x.Blk.S + ")"
	case ArrTupleV:
		var ps []string
		for _, e := range x.E {
			ps = append(ps, u.valKey(st, e, depth+1))
		}
		return "[" + strings.Join(ps, ",") + "]"
	case StructV:
		var ps []string
		for _, e := range x.F {
			ps = append(ps, u.valKey(st, e, depth+1))
		}
		return "{" + strings.Join(ps, ",") + "}"
	case TupleV:
		var ps []string
		for _, e := range x.E {
			ps = append(ps, u.valKey(st, e, depth+1))
		}
		return "(" + strings.Join(ps, ",") + ")"
	case PtrV:
		if x.Cell == nil {
			if x.Blk != nil {
				return fmt.Sprintf("bp(%s,%s)", x.Blk.S, x.Idx.S)
			}
			return "nilptr"
		}
		inner := u.valKey(st, u.loadPath(st, x), depth+1)
		return fmt.Sprintf("ptr(%s->%s)", x.Nil.S, inner)
	case IfaceV:
		if x.Dyn != nil {
			return fmt.Sprintf("if(%s,%s,%s)", x.Nil.S, x.Dyn.String(), u.valKey(st, x.V, depth+1))
		}
		o := "-"
		if x.Opq != nil {
			o = x.Opq.S
		}
		return fmt.Sprintf("if(%s,opq %s)", x.Nil.S, o)
	case MapV:
		return fmt.Sprintf("map%d", x.ID)
	case FuncV:
		return "func"
	case OpaqueV:
		return "opq(" + x.ID.S + ")"
	}
	return fmt.Sprintf("%T", v)
}

func sortedKeys(m map[string]*Region) []string {
	var ks []string
	for k := range m {
		ks = append(ks, k)
	}
	sort.Strings(ks)
	return ks
}
