package gvc

import (
	"fmt"
	"go/types"
	"math/big"
	"strings"

	"golang.org/x/tools/go/ssa"
)

// TimeV models time.Time as the mathematical number of nanoseconds since the
// Unix epoch (assumption A-TIME).
type TimeV struct{ NS *Term }

var zeroTimeNS = new(big.Int).Mul(big.NewInt(-62135596800), big.NewInt(1000000000))

func isNamed(t types.Type, pkg, name string) bool {
	n, ok := t.(*types.Named)
	if !ok {
		return false
	}
	o := n.Obj()
	return o.Name() == name && o.Pkg() != nil && o.Pkg().Path() == pkg
}

func pkgOf(fn *ssa.Function) string {
	if fn.Pkg != nil {
		return fn.Pkg.Pkg.Path()
	}
	if o := fn.Object(); o != nil && o.Pkg() != nil {
		return o.Pkg().Path()
	}
	return ""
}

func (u *Unit) newError(lit string, wraps []Val) IfaceV {
	u.nerr++
	return IfaceV{Nil: TFalse, Opq: IntLit(int64(u.nerr)), ErrLit: lit, Wraps: wraps, Created: true}
}

// errArgs collects error-typed values among variadic arguments.
func (u *Unit) errArgs(st *State, v Val) []Val {
	var out []Val
	s, ok := v.(SliceV)
	if !ok || s.List == nil || !s.Len.IsInt {
		return nil
	}
	for i := 0; i < int(s.Len.I.Int64()); i++ {
		e := u.loadCell(st, u.listCell(s.List, s.LOff+i))
		if iv, ok := e.(IfaceV); ok {
			if iv.Opq != nil || iv.Sentinel != nil {
				out = append(out, iv)
			} else if inner, ok2 := iv.V.(IfaceV); ok2 {
				out = append(out, inner)
			}
		}
	}
	return out
}

func litOf(v Val) string {
	if s, ok := v.(StrV); ok && s.IsLit {
		return s.Lit
	}
	return ""
}

// errorsIs models errors.Is(err, target).
func (u *Unit) errorsIs(err, target IfaceV, depth int) *Term {
	if err.Nil.IsBool && err.Nil.B {
		return TFalse
	}
	var direct *Term
	switch {
	case err.Sentinel != nil && target.Sentinel != nil:
		direct = BoolLit(err.Sentinel == target.Sentinel)
	case err.Opq != nil && target.Opq != nil:
		direct = Eq(err.Opq, target.Opq)
	default:
		direct = u.newBool("is")
	}
	if err.Created {
		res := direct
		if depth < 4 {
			for _, w := range err.Wraps {
				if wi, ok := w.(IfaceV); ok {
					res = Or(res, u.errorsIs(wi, target, depth+1))
				}
			}
		}
		return res
	}
	if err.Sentinel != nil {
		return direct
	}
	// unknown error value: may wrap anything
	r := u.newBool("is")
	u.assume(Implies(direct, r))
	return And(Not(err.Nil), r)
}

func (u *Unit) pureExternal(st *State, name string, args []Val, t types.Type) Val {
	key := "ext:" + name
	for _, a := range args {
		key += "|" + u.valKey(st, a, 0)
	}
	if v, ok := st.memo[key]; ok {
		return v
	}
	v := u.havocResult(st, t, "ext")
	st.memo[key] = v
	u.Assumed["uninterpreted deterministic function: "+name]++
	return v
}

// external models functions outside /repo.  ok=false: no model.
func (u *Unit) external(st *State, fr *Frame, in *ssa.Call, fn *ssa.Function, args []Val) (Val, bool) {
	pkg := pkgOf(fn)
	name := fn.String()
	rt := in.Type()
	switch pkg {
	case "github.com/go-i2p/logger", "github.com/sirupsen/logrus":
		u.Assumed["A-LOG: logger calls have no effect on program state"]++
		if tt, ok := rt.(*types.Tuple); ok && tt.Len() == 0 {
			return nil, true
		}
		if _, ok := rt.Underlying().(*types.Pointer); ok {
			return PtrV{Nil: TFalse, Cell: u.newCell(rt.Underlying().(*types.Pointer).Elem(), true, false, "logger"), Elem: rt.Underlying().(*types.Pointer).Elem()}, true
		}
		return u.havocResult(st, rt, "log"), true
	case "github.com/samber/oops":
		switch fn.Name() {
		case "Errorf":
			// oops.Errorf(format, args...) or builder.Errorf(format, args...)
			i := 0
			if fn.Signature.Recv() != nil {
				i = 1
			}
			var wraps []Val
			if len(args) > i+1 {
				wraps = u.errArgs(st, args[i+1])
			}
			return u.newError(litOf(args[i]), wraps), true
		case "Wrapf", "Wrap":
			i := 0
			if fn.Signature.Recv() != nil {
				i = 1
			}
			inner, _ := args[i].(IfaceV)
			e := u.newError(litOfArg(args, i+1), []Val{inner})
			e.Nil = inner.Nil // oops.Wrapf(nil, ...) == nil
			return e, true
		case "New":
			return u.newError(litOfArg(args, 0), nil), true
		}
		u.Assumed["A-ERR: oops builders carry no program state"]++
		return u.havocResult(st, rt, "oops"), true
	case "fmt":
		switch fn.Name() {
		case "Errorf":
			var wraps []Val
			if len(args) > 1 {
				wraps = u.errArgs(st, args[1])
			}
			if !strings.Contains(litOf(args[0]), "%w") {
				wraps = nil
			}
			return u.newError(litOf(args[0]), wraps), true
		case "Sprintf", "Sprint", "Sprintln":
			l := u.newInt("sprintf_len")
			u.assume(And(Le(IntLit(0), l), Le(l, BigLit(MaxLen))))
			return StrV{Arr: u.newArr("sprintf"), Len: l}, true
		case "Printf", "Println", "Print":
			return u.havocResult(st, rt, "printf"), true
		}
	case "errors":
		switch fn.Name() {
		case "New":
			return u.newError(litOf(args[0]), nil), true
		case "Is":
			e, _ := args[0].(IfaceV)
			t, _ := args[1].(IfaceV)
			return u.errorsIs(e, t, 0), true
		}
	case "encoding/binary":
		return u.binaryModel(st, fr, in, fn, args)
	case "github.com/go-i2p/crypto/ed25519":
		// static call of a helper-object constructor on a key of the
		// dependency (key.NewSigner() / key.NewVerifier() on a concrete type)
		if fn.Signature.Recv() != nil && strings.HasPrefix(fn.Name(), "New") && len(args) >= 1 {
			rt0 := fn.Signature.Recv().Type()
			if obj := fn.Object(); obj != nil {
				if mf, ok := obj.(*types.Func); ok {
					if res, ok := u.newObjModel(st, IfaceV{Nil: TFalse, Dyn: rt0, V: args[0]}, mf); ok {
						return res, true
					}
				}
			}
		}
		return nil, false
	case "github.com/go-i2p/crypto/elg", "github.com/go-i2p/crypto/dsa":
		// A-CRYPTO: NewElgPublicKey / NewDSAPublicKey accept exactly 256 / 128
		// bytes whose value passes a range test (uninterpreted), and return a
		// copy of those bytes
		if fn.Name() == "NewElgPublicKey" || fn.Name() == "NewDSAPublicKey" {
			n := int64(256)
			if fn.Name() == "NewDSAPublicKey" {
				n = 128
			}
			d, ok := args[0].(SliceV)
			if !ok {
				return nil, false
			}
			u.Assumed["A-CRYPTO: "+fn.Name()+" accepts exactly "+itoa(int(n))+" bytes passing a range test and copies them"]++
			valid := u.newBool("keyvalid")
			okc := And(Eq(d.Len, IntLit(n)), valid)
			r := u.regionOf(st, d.Blk)
			rC, off := r.C, u.name(d.Off, "ko")
			arr := ArrV{Arr: u.mkArr(func(j *Term) *Term { return Select(rC, Add(off, j)) }), N: n}
			errv := IfaceV{Nil: okc, Opq: u.newInt("keyerr")}
			tt := rt.(*types.Tuple)
			if pt, isPtr := tt.At(0).Type().Underlying().(*types.Pointer); isPtr {
				c := u.newCell(pt.Elem(), false, false, "elgkey")
				st.cells[c.ID] = arr
				return TupleV{E: []Val{PtrV{Nil: Not(okc), Cell: c, Elem: pt.Elem()}, errv}}, true
			}
			return TupleV{E: []Val{arr, errv}}, true
		}
	case "bytes":
		switch fn.Name() {
		case "Equal":
			a, b := args[0].(SliceV), args[1].(SliceV)
			ra, rb := u.regionOf(st, a.Blk), u.regionOf(st, b.Blk)
			return u.seqEqTerm(ra.C, a.Off, a.Len, rb.C, b.Off, b.Len), true
		}
	case "crypto/subtle":
		if fn.Name() == "ConstantTimeCompare" {
			a, b := args[0].(SliceV), args[1].(SliceV)
			ra, rb := u.regionOf(st, a.Blk), u.regionOf(st, b.Blk)
			return Ite(u.seqEqTerm(ra.C, a.Off, a.Len, rb.C, b.Off, b.Len), IntLit(1), IntLit(0)), true
		}
	case "time":
		return u.timeModel(st, fr, in, fn, args)
	case "crypto/rand":
		if fn.Name() == "Read" {
			b := args[0].(SliceV)
			rnd := u.newArr("rand")
			if !(b.Len.IsInt && b.Len.I.Sign() == 0) {
				u.S.Push()
				u.S.Assert(Gt(b.Len, IntLit(0)))
				void := u.S.CheckSatT(u.Cfg.FeasMs) == "unsat"
				u.S.Pop()
				if !void {
					u.writeBytes(st, "", b.Blk, b.Off, b.Len, func(j *Term) *Term { return Select(rnd, j) }, "rand.Read")
				}
			}
			return TupleV{E: []Val{b.Len, u.freshVal(st, rt.(*types.Tuple).At(1).Type(), "randerr", false)}}, true
		}
	case "strings":
		if len(args) == 2 {
			a, aok := args[0].(StrV)
			b, bok := args[1].(StrV)
			if aok && bok && a.Fmt != "" && b.IsLit && fn.Name() == "Contains" && !strings.ContainsAny(b.Lit, "0123456789-") {
				// text = literal segments separated by decimal numbers
				hit := false
				for _, seg := range splitNumericVerbs(a.Fmt) {
					if strings.Contains(seg, b.Lit) {
						hit = true
					}
				}
				return BoolLit(hit), true
			}
			if aok && bok && a.IsLit && b.IsLit {
				switch fn.Name() {
				case "Contains":
					return BoolLit(strings.Contains(a.Lit, b.Lit)), true
				case "HasPrefix":
					return BoolLit(strings.HasPrefix(a.Lit, b.Lit)), true
				case "HasSuffix":
					return BoolLit(strings.HasSuffix(a.Lit, b.Lit)), true
				}
			}
		}
		return u.pureExternal(st, name, args, rt), true
	case "crypto/ed25519":
		if res, ok := u.ed25519Model(st, fr, in, fn, args); ok {
			return res, true
		}
		return u.pureExternal(st, name, args, rt), true
	case "crypto/sha512", "github.com/go-i2p/crypto/types", "github.com/go-i2p/crypto/kdf":
		if name == "github.com/go-i2p/crypto/types.SHA256" {
			if res, ok := u.hashModel(st, args, rt); ok {
				return res, true
			}
		}
		// A-CRYPTO: deterministic functions of their arguments, no writes to
		// caller-visible memory (uninterpreted)
		return u.pureExternal(st, name, args, rt), true
	case "strconv", "net", "unicode", "encoding/hex", "sort", "encoding/base32", "encoding/base64", "crypto/sha256":
		// deterministic, no effect on caller-visible memory; results uninterpreted
		switch name {
		case "sort.SliceStable", "sort.Slice", "sort.Sort", "sort.Stable", "sort.Strings", "sort.Ints":
			// the elements are permuted: their order is unknown afterwards
			// (A-SORT: nothing else is written; the comparison function is pure)
			a0 := args[0]
			if iv, ok := a0.(IfaceV); ok && iv.V != nil {
				a0 = iv.V
			}
			if sv, ok := a0.(SliceV); ok && sv.List != nil && sv.List.Sym && !sv.List.New && u.specMode == 0 {
				// sorting a list that existed before the call writes it
				st.written = true
				if u.Cfg.FrameCheck {
					u.check(st, u.oblName(fr.fn, "frame", "sort of a list that existed before the call"), "frame", Le(sv.Len, IntLit(1)), "store into memory that existed before the call")
				}
			}
			u.StoresSeen++
			u.havocReachable(st, args[:1])
			u.Assumed["A-SORT: sort.* permutes the elements of its argument and writes nothing else"]++
			return nil, true
		case "(*crypto/sha256.digest).Write":
			return nil, false
		case "crypto/sha256.Sum256":
			if res, ok := u.hashModel(st, args, rt); ok {
				return res, true
			}
		}
		return u.pureExternal(st, name, args, rt), true
	}
	return nil, false
}

func litOfArg(args []Val, i int) string {
	if i < len(args) {
		return litOf(args[i])
	}
	return ""
}

func (u *Unit) binaryModel(st *State, fr *Frame, in *ssa.Call, fn *ssa.Function, args []Val) (Val, bool) {
	var n int64
	switch {
	case strings.HasSuffix(fn.Name(), "16"):
		n = 2
	case strings.HasSuffix(fn.Name(), "32"):
		n = 4
	case strings.HasSuffix(fn.Name(), "64"):
		n = 8
	default:
		return nil, false
	}
	if fn.Signature.Recv() == nil || !strings.Contains(fn.String(), "bigEndian") {
		return nil, false
	}
	b, ok := args[1].(SliceV)
	if !ok {
		return nil, false
	}
	what := u.srcAt(fr.fn, in.Pos(), fn.Name())
	u.safety(st, fr, in.Pos(), "binary.BigEndian."+fn.Name()+": slice too short", Le(IntLit(n), b.Len))
	_ = what
	if strings.HasPrefix(fn.Name(), "Uint") {
		r := u.regionOf(st, b.Blk)
		sum := IntLit(0)
		for i := int64(0); i < n; i++ {
			by := Select(r.C, Add(b.Off, IntLit(i)))
			u.byteFact(by)
			sum = Add(Mul(sum, IntLit(256)), by)
		}
		v := u.newInt("be")
		u.assume(Eq(v, sum))
		return WithBounds(v, big.NewInt(0), new(big.Int).Sub(pow2(uint(8*n)), bigOne)), true
	}
	// PutUintN(b, v): bytes by chained quotient/remainder
	v := args[2].(*Term)
	bytes := make([]*Term, n)
	cur := v
	for i := n - 1; i >= 0; i-- {
		q, r := u.floorDivMod(cur, big.NewInt(256))
		bytes[i] = r
		cur = q
	}
	off := u.name(b.Off, "po")
	u.writeBytes(st, "", b.Blk, off, IntLit(n), func(j *Term) *Term {
		res := bytes[n-1]
		for i := n - 2; i >= 0; i-- {
			res = Ite(Eq(j, Add(off, IntLit(i))), bytes[i], res)
		}
		return res
	}, "binary.BigEndian."+fn.Name())
	return nil, true
}

func (u *Unit) timeModel(st *State, fr *Frame, in *ssa.Call, fn *ssa.Function, args []Val) (Val, bool) {
	u.Assumed["A-TIME: time.Time is the exact instant in nanoseconds; Unix/UnixMilli/Add/Before/After exact"]++
	bil := IntLit(1000000000)
	mil := IntLit(1000000)
	tOf := func(v Val) *Term {
		if t, ok := v.(TimeV); ok {
			return t.NS
		}
		return u.newInt("time")
	}
	if fn.Signature.Recv() == nil {
		switch fn.Name() {
		case "Now":
			// A-CLOCK: successive readings of the clock on one path do not decrease
			n := u.newInt("now")
			if last, ok := st.memo["time.Now:last"]; ok {
				u.Assumed["A-CLOCK: successive time.Now() readings on a path are non-decreasing"]++
				u.assume(Le(last.(TimeV).NS, n))
			}
			st.memo["time.Now:last"] = TimeV{NS: n}
			return TimeV{NS: n}, true
		case "Unix":
			return TimeV{NS: Add(Mul(bil, args[0].(*Term)), args[1].(*Term))}, true
		case "UnixMilli":
			return TimeV{NS: Mul(mil, args[0].(*Term))}, true
		case "Since":
			return u.freshVal(st, in.Type(), "since", false), true
		}
		return nil, false
	}
	if !isNamed(fn.Signature.Recv().Type(), "time", "Time") {
		return nil, false
	}
	t := tOf(args[0])
	i64lo, i64hi := rangeOf(types.Typ[types.Int64])
	switch fn.Name() {
	case "Unix":
		q, _ := u.floorDivMod(t, big.NewInt(1000000000))
		return u.wrap(types.Typ[types.Int64], q), true
	case "UnixMilli":
		q, _ := u.floorDivMod(t, big.NewInt(1000000))
		return u.wrap(types.Typ[types.Int64], q), true
	case "UnixNano":
		// documented: undefined if the value does not fit in int64
		r := u.newInt("unixnano")
		u.assume(And(Le(BigLit(i64lo), r), Le(r, BigLit(i64hi))))
		u.assume(Implies(And(Le(BigLit(i64lo), t), Le(t, BigLit(i64hi))), Eq(r, t)))
		return WithBounds(r, i64lo, i64hi), true
	case "Add":
		return TimeV{NS: Add(t, args[1].(*Term))}, true
	case "Sub":
		return u.wrap(types.Typ[types.Int64], Sub(t, tOf(args[1]))), true
	case "Before":
		return Lt(t, tOf(args[1])), true
	case "After":
		return Gt(t, tOf(args[1])), true
	case "Equal":
		return Eq(t, tOf(args[1])), true
	case "UTC", "Local", "Round", "In":
		if fn.Name() == "Round" {
			return nil, false
		}
		return TimeV{NS: t}, true
	case "IsZero":
		return Eq(t, BigLit(zeroTimeNS)), true
	case "Format", "String":
		return u.pureExternal(st, fn.String(), args, in.Type()), true
	}
	return nil, false
}

// invokeModel: methods on opaque interface values.
func (u *Unit) invokeModel(st *State, fr *Frame, in *ssa.Call, recv IfaceV, m *types.Func, args []Val) (Val, bool) {
	sig := m.Type().(*types.Signature)
	if recv.Opq != nil && sig.Params().Len() == 0 && sig.Results().Len() == 1 {
		// A-CRYPTO: key values are immutable; Len() == len(Bytes()); both are
		// functions of the key value (memoised per opaque identity)
		key := recv.Opq.S
		switch {
		case m.Name() == "Len" && isIntKind(sig.Results().At(0).Type()):
			u.Assumed["A-CRYPTO: key.Len() == len(key.Bytes()), deterministic"]++
			return u.ifaceLen(st, key), true
		case m.Name() == "Bytes" && isByteSlice(sig.Results().At(0).Type()):
			u.Assumed["A-CRYPTO: key.Len() == len(key.Bytes()), deterministic"]++
			if v, ok := st.memo["ifbytes:"+key]; ok {
				return v, true
			}
			s := u.freshVal(st, sig.Results().At(0).Type(), "keybytes", false).(SliceV)
			u.assume(Eq(s.Len, u.ifaceLen(st, key)))
			u.assume(Implies(Gt(s.Len, IntLit(0)), Neq(s.Blk, IntLit(0))))
			if bound, ok := u.ifBound[key]; ok {
				u.assume(Lt(s.Blk, bound)) // the key existed before that point
			} else {
				u.assume(Lt(s.Blk, Add(st.wm, IntLit(int64(st.nalloc)))))
			}
			u.blkInfo[s.Blk.S] = blkMeta{base: u.ifaceBase(st, key), epoch: len(st.order)}
			st.memo["ifbytes:"+key] = s
			return s, true
		}
	}
	if res, ok := u.newObjModel(st, recv, m); ok {
		return res, true
	}
	if res, ok := u.sigObjectModel(st, fr, in, recv, m, args); ok {
		return res, true
	}
	switch m.Name() {
	case "Error", "String":
		if m.Type().(*types.Signature).Params().Len() == 0 {
			if recv.ErrLit != "" && !strings.Contains(recv.ErrLit, "%") {
				return u.strLit(recv.ErrLit), true
			}
			if recv.ErrLit != "" && numericVerbsOnly(recv.ErrLit) {
				l := u.newInt("errstr_len")
				u.assume(And(Le(IntLit(0), l), Le(l, BigLit(MaxLen))))
				return StrV{Arr: u.newArr("errstr"), Len: l, Fmt: recv.ErrLit}, true
			}
			mkey := ""
			if recv.Opq != nil {
				mkey = "errstr:" + recv.Opq.S
				if v, ok := st.memo[mkey]; ok {
					return v, true
				}
			}
			l := u.newInt("errstr_len")
			u.assume(And(Le(IntLit(0), l), Le(l, BigLit(MaxLen))))
			s := StrV{Arr: u.newArr("errstr"), Len: l}
			if mkey != "" {
				st.memo[mkey] = s
			}
			return s, true
		}
	}
	return nil, false
}

var _ = fmt.Sprint

func (u *Unit) ifaceLen(st *State, key string) *Term {
	if v, ok := st.memo["iflen:"+key]; ok {
		return v.(*Term)
	}
	l := u.newInt("keylen")
	u.assume(And(Le(IntLit(0), l), Le(l, BigLit(MaxLen))))
	l = WithBounds(l, big.NewInt(0), MaxLen)
	st.memo["iflen:"+key] = l
	return l
}

// ifaceBase: allocation watermark at the time the opaque interface value was
// first seen (its bytes are fresh relative to that point if the contract that
// produced it says so).
func (u *Unit) ifaceBase(st *State, key string) *Term {
	if b, ok := u.ifBase[key]; ok {
		return b
	}
	return u.alloc0
}

// numericVerbsOnly: every verb of the format is %d.
func numericVerbsOnly(f string) bool {
	for i := 0; i < len(f); i++ {
		if f[i] == '%' {
			if i+1 >= len(f) || f[i+1] != 'd' {
				return false
			}
			i++
		}
	}
	return true
}

func splitNumericVerbs(f string) []string { return strings.Split(f, "%d") }

// newObjModel: key.NewVerifier() / NewSigner() / NewEncrypter() ... on a key of
// the crypto dependency (A-CRYPTO: constructors of helper objects return a
// usable object exactly when they return no error).  The object remembers the
// key it was made from.
func (u *Unit) newObjModel(st *State, recv IfaceV, m *types.Func) (Val, bool) {
	sig := m.Type().(*types.Signature)
	if !(sig.Params().Len() == 0 && sig.Results().Len() == 2 && types.Identical(sig.Results().At(1).Type(), errType) && strings.HasPrefix(m.Name(), "New")) {
		return nil, false
	}
	if _, isIface := sig.Results().At(0).Type().Underlying().(*types.Interface); !isIface {
		return nil, false
	}
	if recv.Opq == nil && recv.Dyn == nil {
		return nil, false
	}
	if recv.Dyn != nil {
		n, ok := recv.Dyn.(*types.Named)
		if !ok || n.Obj().Pkg() == nil || !strings.HasPrefix(n.Obj().Pkg().Path(), "github.com/go-i2p/crypto/") {
			return nil, false
		}
	}
	u.Assumed["A-CRYPTO: key."+m.Name()+"() returns a non-nil object exactly when it returns no error"]++
	okb := u.newBool("newok")
	if recv.Dyn != nil && recv.Dyn.String() == "github.com/go-i2p/crypto/ed25519.Ed25519PublicKey" && m.Name() == "NewVerifier" {
		// A-DEP-ED25519 (read from the pinned dependency): never fails
		okb = TTrue
	}
	if isDepEd25519Priv(recv) && m.Name() == "NewSigner" {
		// A-DEP-ED25519: fails exactly when the key is not 64 bytes long
		if kv, ok := depEd25519PrivBytes(u, st, recv); ok {
			_, _, l := u.seqOf(st, kv)
			okb = Eq(l, IntLit(64))
		}
	}
	obj := IfaceV{Nil: Not(okb), Opq: u.newInt("obj")}
	er := IfaceV{Nil: okb, Opq: u.newInt("objerr")}
	u.ifBound[obj.Opq.S] = Add(st.wm, IntLit(int64(st.nalloc)))
	if u.objOwner == nil {
		u.objOwner = map[string]IfaceV{}
	}
	u.objOwner[obj.Opq.S] = recv
	return TupleV{E: []Val{obj, er}}, true
}
