package gvc

import (
	"strings"
	"regexp"
	"fmt"
	"go/token"
	"go/types"
	"math/big"

	"golang.org/x/tools/go/ssa"
)

// wrap reduces the mathematical integer m into the range of type t with Go's
// wrap-around semantics (fresh multiplier, no mod term).
func (u *Unit) wrap(t types.Type, m *Term) *Term {
	lo, hi, bits, _ := intRange(t)
	if m.IsInt {
		v := new(big.Int).Set(m.I)
		mod := pow2(bits)
		v.Sub(v, lo.I)
		v.Mod(v, mod)
		v.Add(v, lo.I)
		return BigLit(v)
	}
	ml, mh := bounds(m)
	if ml != nil && mh != nil && ml.Cmp(lo.I) >= 0 && mh.Cmp(hi.I) <= 0 {
		return m
	}
	k := u.newInt("k")
	r := u.newInt("w")
	m = u.name(m, "m")
	u.assume(And(Le(lo, r), Le(r, hi), Eq(r, Sub(m, Mul(BigLit(pow2(bits)), k)))))
	// shortcut for the solver: in range => identical
	u.assume(Implies(And(Le(lo, m), Le(m, hi)), Eq(r, m)))
	return WithBounds(r, lo.I, hi.I)
}

func rangeOf(t types.Type) (*big.Int, *big.Int) {
	lo, hi, _, _ := intRange(t)
	return lo.I, hi.I
}

// floorDivMod introduces q, r with x = c*q + r, 0 <= r < c (c > 0 constant).
func (u *Unit) floorDivMod(x *Term, c *big.Int) (q, r *Term) {
	if x.IsInt {
		qq, rr := new(big.Int).DivMod(x.I, c, new(big.Int))
		return BigLit(qq), BigLit(rr)
	}
	if u.binder > 0 {
		u.limit("division/remainder inside a quantifier body")
		return u.newInt("q"), u.newInt("r")
	}
	x = u.name(x, "x")
	key := x.S + "/" + c.String()
	if e, ok := u.divMemo[key]; ok && u.S.Alive(e.scope) {
		return e.q, e.r
	}
	q = u.newInt("q")
	r = u.newInt("r")
	u.assume(And(Eq(x, Add(Mul(BigLit(c), q), r)), Le(IntLit(0), r), Lt(r, BigLit(c))))
	defer func() { u.divMemo[key] = divEntry{q, r, u.S.ScopeID()} }()
	xl, xh := bounds(x)
	var ql, qh *big.Int
	if xl != nil {
		ql, _ = new(big.Int).DivMod(xl, c, new(big.Int))
	}
	if xh != nil {
		qh, _ = new(big.Int).DivMod(xh, c, new(big.Int))
	}
	q = WithBounds(q, ql, qh)
	r = WithBounds(r, big.NewInt(0), new(big.Int).Sub(c, bigOne))
	return
}

// andConst computes x & c for a non-negative constant c (x in two's complement
// of the given width when negative).
func (u *Unit) andConst(x *Term, c *big.Int, t types.Type) *Term {
	if c.Sign() == 0 {
		return IntLit(0)
	}
	if x.IsInt {
		_, _, bits, _ := intRange(t)
		xv := new(big.Int).Set(x.I)
		if xv.Sign() < 0 {
			xv.Add(xv, pow2(bits))
		}
		return BigLit(xv.And(xv, c))
	}
	// low mask 2^k-1: remainder of floor division
	cp1 := new(big.Int).Add(c, bigOne)
	if cp1.BitLen() > 0 && new(big.Int).And(cp1, c).Sign() == 0 {
		_, r := u.floorDivMod(x, cp1)
		return r
	}
	// general: walk the bits up to the highest set bit of c
	res := IntLit(0)
	cur := x
	for i := 0; i < c.BitLen(); i++ {
		q, b := u.floorDivMod(cur, big.NewInt(2))
		if c.Bit(i) == 1 {
			res = Add(res, Mul(BigLit(pow2(uint(i))), b))
		}
		cur = q
	}
	return WithBounds(u.name(res, "and"), big.NewInt(0), c)
}

func (u *Unit) binop(st *State, fr *Frame, in *ssa.BinOp) Val {
	x := u.get(st, fr, in.X)
	y := u.get(st, fr, in.Y)
	xt := in.X.Type()
	switch in.Op {
	case token.EQL:
		return u.equal(st, x, y, xt)
	case token.NEQ:
		return Not(u.equal(st, x, y, xt))
	}
	if isIntKind(xt) {
		a, b := x.(*Term), y.(*Term)
		rt := in.Type()
		switch in.Op {
		case token.ADD:
			return u.wrap(rt, Add(a, b))
		case token.SUB:
			return u.wrap(rt, Sub(a, b))
		case token.MUL:
			if !a.IsInt && !b.IsInt {
				u.limit("nonlinear multiplication in %s", FuncName(fr.fn))
			}
			return u.wrap(rt, Mul(a, b))
		case token.QUO, token.REM:
			u.safety(st, fr, in.Pos(), "division by zero", Neq(b, IntLit(0)))
			if b.IsInt && b.I.Sign() > 0 {
				al, _ := bounds(a)
				if al != nil && al.Sign() >= 0 {
					q, r := u.floorDivMod(a, b.I)
					if in.Op == token.QUO {
						return q
					}
					return r
				}
				// truncated division of a possibly negative dividend
				a = u.name(a, "x")
				q := u.newInt("q")
				r := u.newInt("r")
				c := BigLit(b.I)
				u.assume(Eq(a, Add(Mul(c, q), r)))
				u.assume(Or(And(Ge(a, IntLit(0)), Le(IntLit(0), r), Lt(r, c)),
					And(Lt(a, IntLit(0)), Lt(Neg(c), r), Le(r, IntLit(0)))))
				if in.Op == token.QUO {
					return u.wrap(rt, q)
				}
				return r
			}
			u.limit("division by a non-constant in %s", FuncName(fr.fn))
			return u.freshVal(st, rt, "div", false)
		case token.AND:
			if b.IsInt && b.I.Sign() >= 0 {
				return u.andConst(a, b.I, xt)
			}
			if a.IsInt && a.I.Sign() >= 0 {
				return u.andConst(b, a.I, xt)
			}
		case token.OR, token.XOR, token.AND_NOT:
			c, v := b, a
			if a.IsInt && in.Op != token.AND_NOT {
				c, v = a, b
			}
			if c.IsInt && c.I.Sign() >= 0 {
				vl, _ := bounds(v)
				if vl != nil && vl.Sign() >= 0 {
					and := u.andConst(v, c.I, xt)
					switch in.Op {
					case token.OR:
						return u.wrap(rt, Sub(Add(v, c), and))
					case token.XOR:
						return u.wrap(rt, Sub(Add(v, c), Mul(IntLit(2), and)))
					default:
						return u.wrap(rt, Sub(v, and))
					}
				}
			}
		case token.SHL:
			if b.IsInt {
				if b.I.Cmp(big.NewInt(64)) >= 0 {
					return IntLit(0)
				}
				return u.wrap(rt, Mul(a, BigLit(pow2(uint(b.I.Int64())))))
			}
			// variable amount: table over 0..63
			res := IntLit(0)
			for s := 63; s >= 0; s-- {
				res = Ite(Eq(b, IntLit(int64(s))), Mul(a, BigLit(pow2(uint(s)))), res)
			}
			r := u.newInt("shl")
			u.assume(Eq(r, res))
			if _, _, _, sg := intRange(in.Y.Type()); sg {
				u.safety(st, fr, in.Pos(), "negative shift amount", Ge(b, IntLit(0)))
			}
			return u.wrap(rt, r)
		case token.SHR:
			if b.IsInt {
				if b.I.Cmp(big.NewInt(64)) >= 0 {
					al, _ := bounds(a)
					if al != nil && al.Sign() >= 0 {
						return IntLit(0)
					}
				} else {
					sh := b.I.Int64()
					if sh%8 == 0 && sh > 8 {
						// whole bytes: the same chain of divisions by 256 the
						// big-endian encoders use (floor(floor(x/256)/256) ==
						// floor(x/65536)), so both name the same quotients
						q := a
						for i := int64(0); i < sh/8; i++ {
							q, _ = u.floorDivMod(q, big.NewInt(256))
						}
						return q
					}
					q, _ := u.floorDivMod(a, pow2(uint(sh)))
					return q
				}
			}
		case token.LSS:
			return Lt(a, b)
		case token.LEQ:
			return Le(a, b)
		case token.GTR:
			return Gt(a, b)
		case token.GEQ:
			return Ge(a, b)
		}
		u.limit("unmodelled integer operation %s in %s", in.Op, FuncName(fr.fn))
		return u.freshVal(st, in.Type(), "op", false)
	}
	if isBoolKind(xt) {
		a, b := x.(*Term), y.(*Term)
		switch in.Op {
		case token.AND, token.LAND:
			return And(a, b)
		case token.OR, token.LOR:
			return Or(a, b)
		}
	}
	if isStringKind(xt) {
		a, b := x.(StrV), y.(StrV)
		switch in.Op {
		case token.ADD:
			if a.IsLit && b.IsLit {
				return u.strLit(a.Lit + b.Lit)
			}
			al := u.name(a.Len, "sl")
			aA, bA := a.Arr, b.Arr
			arr := u.mkArr(func(j *Term) *Term { return Ite(Lt(j, al), Select(aA, j), Select(bA, Sub(j, al))) })
			return StrV{Arr: arr, Len: Add(al, b.Len)}
		default:
			// ordering comparisons on strings: not modelled
			if a.IsLit && b.IsLit {
				switch in.Op {
				case token.LSS:
					return BoolLit(a.Lit < b.Lit)
				case token.LEQ:
					return BoolLit(a.Lit <= b.Lit)
				case token.GTR:
					return BoolLit(a.Lit > b.Lit)
				case token.GEQ:
					return BoolLit(a.Lit >= b.Lit)
				}
			}
			return u.newBool("strcmp")
		}
	}
	// floats etc.
	if _, ok := in.Type().Underlying().(*types.Basic); ok {
		return u.freshVal(st, in.Type(), "fop", false)
	}
	u.limit("unmodelled binary operation %s on %s in %s", in.Op, xt, FuncName(fr.fn))
	return u.freshVal(st, in.Type(), "op", false)
}

// seqEqTerm: l1 == l2 and contents agree on [0,l).
func (u *Unit) seqEqTerm(a1 *Term, o1 *Term, l1 *Term, a2 *Term, o2 *Term, l2 *Term) *Term {
	if l1.IsInt && l2.IsInt && l1.I.Cmp(l2.I) != 0 {
		return TFalse
	}
	// one side has a small constant length: expand (no quantifier needed)
	var cl *Term
	if l1.IsInt && l1.I.Cmp(big.NewInt(16)) <= 0 {
		cl = l1
	} else if l2.IsInt && l2.I.Cmp(big.NewInt(16)) <= 0 {
		cl = l2
	}
	if cl != nil && u.binder == 0 {
		o1n, o2n := u.name(o1, "o"), u.name(o2, "o")
		cs := []*Term{Eq(l1, l2)}
		for i := int64(0); i < cl.I.Int64(); i++ {
			cs = append(cs, Eq(Select(a1, Add(o1n, IntLit(i))), Select(a2, Add(o2n, IntLit(i)))))
		}
		return And(cs...)
	}
	o1, o2, l1 = u.name(o1, "o"), u.name(o2, "o"), u.name(l1, "l")
	if u.goalMode > 0 && u.binder == 0 {
		// The term is (part of) a proof goal: "l1 == l2 and the contents agree"
		// is established from a skolem index sk, a witness of disagreement if
		// there is one.  Sound for positive occurrences in a goal; a negative
		// occurrence merely cannot use the equality (sq is then unconstrained
		// from above), so nothing unsound can be derived.
		// a buffer assembled by appends is compared piece by piece
		segs := a1.Segs
		if len(segs) == 0 || !(o1.IsInt && o1.I.Sign() == 0) {
			segs = nil
		}
		bounds := append([]*Term{IntLit(0)}, segs...)
		bounds = append(bounds, l1)
		var parts []*Term
		for i := 0; i+1 < len(bounds); i++ {
			lo, hi := bounds[i], bounds[i+1]
			sq := u.newBool("sq")
			sk := u.newInt("sk")
			p := Implies(And(Le(lo, sk), Lt(sk, hi), Le(IntLit(0), sk), Lt(sk, l1)), Eq(Select(a1, Add(o1, sk)), Select(a2, Add(o2, sk))))
			u.S.Assert(Implies(p, sq))
			parts = append(parts, sq)
		}
		return And(append([]*Term{Eq(l1, l2)}, parts...)...)
	}
	d := u.name(Sub(o2, o1), "d")
	mk := func(base, other *Term, lo *Term, toOther func(k *Term) *Term, baseFirst bool) *Term {
		u.nq++
		v := fmt.Sprintf("k%d", u.nq)
		k := Const(v, SInt)
		u.binder++
		var eq *Term
		if baseFirst {
			eq = Eq(Select(base, k), Select(other, toOther(k)))
		} else {
			eq = Eq(Select(other, toOther(k)), Select(base, k))
		}
		body := Implies(And(Le(lo, k), Lt(k, Add(lo, l1))), eq)
		u.binder--
		if body.IsBool {
			return body
		}
		if base.Base != "" {
			return &Term{S: fmt.Sprintf("(forall ((%s Int)) (! %s :pattern ((select %s %s))))", v, body.S, base.S, v), Sort: SBool}
		}
		return Forall(v, body)
	}
	f1 := mk(a1, a2, o1, func(k *Term) *Term { return Add(k, d) }, true)
	var full *Term
	if a2.Base == "" || a1.Base == "" {
		if a1.Base == "" && a2.Base != "" {
			f1 = mk(a2, a1, o2, func(k *Term) *Term { return Sub(k, d) }, false)
		}
		full = And(Eq(l1, l2), f1)
	} else {
		f2 := mk(a2, a1, o2, func(k *Term) *Term { return Sub(k, d) }, false)
		full = And(Eq(l1, l2), f1, f2)
	}
	if u.binder > 0 || full.IsBool {
		return full
	}
	return u.nameSeqEq(full, a1, o1, l1, a2, o2, l2)
}

// seqFact: a named sequence equality e <=> (l1 == l2 and the contents agree).
// The quantified direction e => forall is a (deferred) hypothesis; the other
// direction is quantifier-free through a witness index wk: if e is false and
// the lengths agree, the two sequences differ at wk.  When some e is assumed
// false, its witness becomes an index of interest and every named equality is
// instantiated at it (executor-side instantiation: the solver's E-matching has
// no ground term to start from in that situation).
type seqFact struct {
	e              *Term
	a1, o1, a2, o2 *Term
	l, l2          *Term
	wk             *Term
	scope          int
	active         bool
	activeScope    int
}

func (u *Unit) nameSeqEq(full, a1, o1, l1, a2, o2, l2 *Term) *Term {
	e := u.newBool("seq")
	u.S.Assert(Implies(e, Eq(l1, l2))) // quantifier-free part: known to feasibility checks too
	u.S.Assert(Implies(e, full))
	f := &seqFact{e: e, a1: a1, o1: o1, a2: a2, o2: o2, l: l1, l2: l2, scope: u.S.ScopeID()}
	live := u.seqFacts[:0]
	for _, g := range u.seqFacts {
		if u.S.Alive(g.scope) {
			live = append(live, g)
		}
	}
	u.seqFacts = append(live, f)
	if u.seqByName == nil {
		u.seqByName = map[string]*seqFact{}
	}
	u.seqByName[e.S] = f
	// the positions already of interest (reads made for active witnesses)
	lw := u.wreads[:0]
	for _, r := range u.wreads {
		if u.S.Alive(r.scope) {
			lw = append(lw, r)
		}
	}
	u.wreads = lw
	u.witnessMode++
	u.instBudget = 40
	for _, r := range append([]readRec(nil), lw...) {
		u.instAtRead(f, r)
	}
	u.witnessMode--
	// aligned instantiation at the active witness positions (no cascade)
	saved := u.witnessMode
	u.witnessMode = 0
	for _, g := range append([]*seqFact(nil), u.seqFacts...) {
		if g != f && g.active && g.wk != nil && u.S.Alive(g.activeScope) {
			u.instSeq(f, g.wk)
		}
	}
	u.witnessMode = saved
	return e
}

// instSeq: f at position idx of both sequences (aligned instantiation; covers
// sides that are derived arrays, which reads cannot be matched against).
func (u *Unit) instSeq(f *seqFact, idx *Term) {
	key := "sinst:" + f.e.S + "@" + idx.S
	if e, ok := u.readMemo[key]; ok && u.S.Alive(e.scope) {
		return
	}
	u.readMemo[key] = divEntry{q: TTrue, scope: u.S.ScopeID()}
	u.S.Assert(Implies(And(f.e, Le(IntLit(0), idx), Lt(idx, f.l)), Eq(Select(f.a1, Add(f.o1, idx)), Select(f.a2, Add(f.o2, idx)))))
	u.Instances++
}

var notSeqRe = regexp.MustCompile(`\(not (seq![0-9]+)\)`)

// activateWitnesses: t is being assumed; every named sequence equality that
// occurs negated in it contributes its witness index.
func (u *Unit) activateWitnesses(t *Term) {
	if len(u.seqByName) == 0 || !strings.Contains(t.S, "(not seq!") {
		return
	}
	for _, m := range notSeqRe.FindAllStringSubmatch(t.S, -1) {
		f := u.seqByName[m[1]]
		if f == nil || !u.S.Alive(f.scope) || (f.active && u.S.Alive(f.activeScope)) {
			continue
		}
		u.activate(f)
	}
}

func (u *Unit) activate(f *seqFact) {
	if f.active && u.S.Alive(f.activeScope) {
		return
	}
	f.active, f.activeScope = true, u.S.ScopeID()
	// if e is false and the lengths agree, the sequences differ at wk; every
	// named equality is instantiated at the positions this reads
	wk := u.newInt("wk")
	f.wk = wk
	u.witnessMode++
	u.instBudget = 120
	diff := Not(Eq(Select(f.a1, Add(f.o1, wk)), Select(f.a2, Add(f.o2, wk))))
	u.S.Assert(Or(f.e, Not(Eq(f.l, f.l2)), And(Le(IntLit(0), wk), Lt(wk, f.l), diff)))
	u.witnessMode--
	saved := u.witnessMode
	u.witnessMode = 0
	for _, g := range append([]*seqFact(nil), u.seqFacts...) {
		if g != f && u.S.Alive(g.scope) {
			u.instSeq(g, wk)
		}
	}
	u.witnessMode = saved
}

func (u *Unit) equal(st *State, x, y Val, t types.Type) *Term {
	switch a := x.(type) {
	case *Term:
		return Eq(a, y.(*Term))
	case StrV:
		b := y.(StrV)
		if a.IsLit && b.IsLit {
			return BoolLit(a.Lit == b.Lit)
		}
		return u.seqEqTerm(a.Arr, IntLit(0), a.Len, b.Arr, IntLit(0), b.Len)
	case SliceV:
		b := y.(SliceV)
		// only comparison with nil is legal Go
		if b.Blk.IsInt && b.Blk.I.Sign() == 0 {
			return Eq(a.Blk, IntLit(0))
		}
		return Eq(b.Blk, IntLit(0))
	case PtrV:
		b := y.(PtrV)
		if b.Cell == nil && b.Blk == nil {
			return Or(a.Nil, And(b.Nil, TFalse)) // y is nil literal
		}
		if a.Cell == nil && a.Blk == nil {
			return b.Nil
		}
		same := a.Cell == b.Cell && fmt.Sprint(a.Path) == fmt.Sprint(b.Path)
		if same {
			return Or(And(a.Nil, b.Nil), And(Not(a.Nil), Not(b.Nil)))
		}
		return And(a.Nil, b.Nil)
	case IfaceV:
		b := y.(IfaceV)
		bnil := b.Nil.IsBool && b.Nil.B
		anil := a.Nil.IsBool && a.Nil.B
		switch {
		case bnil:
			return a.Nil
		case anil:
			return b.Nil
		}
		if a.Opq != nil && b.Opq != nil {
			return Or(And(a.Nil, b.Nil), And(Not(a.Nil), Not(b.Nil), Eq(a.Opq, b.Opq)))
		}
		if a.Dyn != nil && b.Dyn != nil {
			if !types.Identical(a.Dyn, b.Dyn) {
				return TFalse
			}
			return u.equal(st, a.V, b.V, a.Dyn)
		}
		return u.newBool("ifeq")
	case ArrV:
		b := y.(ArrV)
		return u.seqEqTerm(a.Arr, IntLit(0), IntLit(a.N), b.Arr, IntLit(0), IntLit(b.N))
	case StructV:
		b := y.(StructV)
		var cs []*Term
		for i := range a.F {
			cs = append(cs, u.equal(st, a.F[i], b.F[i], a.T.Field(i).Type()))
		}
		return And(cs...)
	case ArrTupleV:
		b := y.(ArrTupleV)
		var cs []*Term
		for i := range a.E {
			cs = append(cs, u.equal(st, a.E[i], b.E[i], a.T.Elem()))
		}
		return And(cs...)
	case MapV:
		b := y.(MapV)
		if b.ID == 0 && !b.Opaque {
			return u.mapNil(a)
		}
		return u.mapNil(b)
	case FuncV:
		b := y.(FuncV)
		if b.Fn == nil && b.B == nil {
			return BoolLit(a.Fn == nil && a.B == nil)
		}
		return BoolLit(b.Fn == nil && b.B == nil)
	case OpaqueV:
		if b, ok := y.(OpaqueV); ok {
			return Eq(a.ID, b.ID)
		}
	case TimeV:
		if b, ok := y.(TimeV); ok {
			return Eq(a.NS, b.NS)
		}
	}
	return u.newBool("eq")
}

func (u *Unit) mapNil(m MapV) *Term {
	if m.Global != nil {
		return TFalse
	}
	if m.Opaque {
		return u.newBool("mapnil")
	}
	return BoolLit(m.ID == 0)
}

func (u *Unit) unop(st *State, fr *Frame, in *ssa.UnOp) Val {
	x := u.get(st, fr, in.X)
	switch in.Op {
	case token.MUL:
		p := x.(PtrV)
		return u.load(st, fr, in.Pos(), p, in.Type())
	case token.NOT:
		return Not(x.(*Term))
	case token.SUB:
		if t, ok := x.(*Term); ok {
			return u.wrap(in.Type(), Neg(t))
		}
		return u.freshVal(st, in.Type(), "neg", false)
	case token.XOR:
		t := x.(*Term)
		_, hi, _, signed := intRange(in.Type())
		if signed {
			return Sub(Neg(t), IntLit(1))
		}
		return Sub(hi, t)
	}
	u.limit("unmodelled unary operation %s in %s", in.Op, FuncName(fr.fn))
	return u.freshVal(st, in.Type(), "unop", false)
}

func (u *Unit) convert(st *State, fr *Frame, in *ssa.Convert) Val {
	x := u.get(st, fr, in.X)
	from, to := in.X.Type(), in.Type()
	switch {
	case isIntKind(from) && isIntKind(to):
		return u.wrap(to, x.(*Term))
	case isStringKind(to):
		if s, ok := x.(SliceV); ok && s.List == nil {
			// []byte -> string (copy)
			r := u.regionOf(st, s.Blk)
			if s.Off.IsInt && s.Off.I.Sign() == 0 {
				return StrV{Arr: r.C, Len: s.Len}
			}
			off := u.name(s.Off, "o")
			rC := r.C
			return StrV{Arr: u.mkArr(func(j *Term) *Term { return Select(rC, Add(off, j)) }), Len: s.Len}
		}
		if isIntKind(from) {
			l := u.newInt("runelen")
			u.assume(And(Le(IntLit(1), l), Le(l, IntLit(4))))
			return StrV{Arr: u.newArr("rune"), Len: l}
		}
		if s, ok := x.(StrV); ok {
			return s
		}
	case isStringKind(from):
		if sl, ok := to.Underlying().(*types.Slice); ok && isByte(sl.Elem()) {
			s := x.(StrV)
			r := &Region{Blk: u.allocID(st), C: s.Arr, Fresh: true}
			u.addRegion(st, r)
			cp := u.newInt("cap")
			u.assume(And(Le(s.Len, cp), Le(cp, BigLit(MaxLen))))
			return SliceV{Blk: r.Blk, Off: IntLit(0), Len: s.Len, Cap: cp, Elem: sl.Elem()}
		}
	}
	if _, ok := to.Underlying().(*types.Basic); ok {
		if t, ok2 := x.(*Term); ok2 && isIntKind(to) {
			return u.wrap(to, t)
		}
		return u.freshVal(st, to, "conv", false)
	}
	// slice-to-slice / pointer conversions of identical underlying types
	if types.Identical(from.Underlying(), to.Underlying()) {
		return x
	}
	u.limit("unmodelled conversion %s -> %s in %s", from, to, FuncName(fr.fn))
	return u.freshVal(st, to, "conv", false)
}

// promote turns the byte array stored at (cell,path) into a region so that
// slices of it have a block identity.
func (u *Unit) promote(st *State, p PtrV, n int64) *Term {
	cur := u.loadCell(st, p.Cell)
	for _, i := range p.Path {
		cur = u.project(st, cur, i)
	}
	if ref, ok := cur.(ArrRefV); ok {
		return ref.Blk
	}
	av := cur.(ArrV)
	var r *Region
	if p.Cell.Old {
		r = u.inputRegion(st, "arr_"+p.Cell.Name)
		u.setContents(st, r.Blk.S, av.Arr)
		r = st.regions[r.Blk.S]
	} else {
		r = &Region{Blk: u.allocID(st), C: av.Arr, Fresh: true}
		u.addRegion(st, r)
	}
	old := u.loadCell(st, p.Cell)
	st.cells[p.Cell.ID] = u.updatePathRaw(old, p.Path, ArrRefV{Blk: r.Blk, N: n})
	return r.Blk
}

func (u *Unit) updatePathRaw(v Val, path []int, nv Val) Val {
	if len(path) == 0 {
		return nv
	}
	switch x := v.(type) {
	case StructV:
		nf := append([]Val(nil), x.F...)
		nf[path[0]] = u.updatePathRaw(x.F[path[0]], path[1:], nv)
		return StructV{F: nf, T: x.T}
	case ArrTupleV:
		ne := append([]Val(nil), x.E...)
		ne[path[0]] = u.updatePathRaw(x.E[path[0]], path[1:], nv)
		return ArrTupleV{E: ne, T: x.T}
	}
	panic(fmt.Sprintf("updatePathRaw %T", v))
}

func (u *Unit) indexAddr(st *State, fr *Frame, in *ssa.IndexAddr) Val {
	x := u.get(st, fr, in.X)
	idx := u.get(st, fr, in.Index).(*Term)
	switch xv := x.(type) {
	case SliceV:
		u.safety(st, fr, in.Pos(), "index out of range", And(Le(IntLit(0), idx), Lt(idx, xv.Len)))
		if xv.List == nil && !isByte(xv.Elem) {
			// nil slice of a non-byte element type: any index is out of range
			return PtrV{Nil: TFalse, Cell: u.newCell(xv.Elem, u.specMode == 0, false, "nilslice"), Elem: xv.Elem}
		}
		if xv.List == nil {
			return PtrV{Nil: TFalse, Blk: xv.Blk, Idx: Add(xv.Off, idx), Elem: xv.Elem}
		}
		if !idx.IsInt {
			// element at a symbolic position: an unconstrained element cached
			// under the index term (sound for reads; a store through it makes
			// the list content unknown, see store)
			c := u.keyedCell(fmt.Sprintf("list%d[%d+%s]", xv.List.ID, xv.LOff, idx.S), xv.Elem, true, xv.List.Sym && !xv.List.New)
			u.symIdxCells[c.ID] = xv.List
			if _, isPtr := xv.Elem.Underlying().(*types.Pointer); isPtr && xv.Len.IsInt && xv.Len.I.IsInt64() && xv.Len.I.Int64() >= 1 && xv.Len.I.Int64() <= 16 && u.specMode == 0 {
				// a short list of pointers: the element at a symbolic position
				// is nil exactly when the element at that position is
				if _, done := st.cells[c.ID]; !done {
					if pv, ok := u.freshVal(st, xv.Elem, "symelem", false).(PtrV); ok {
						n := int(xv.Len.I.Int64())
						var nilAt *Term = TFalse
						okAll := true
						for i := n - 1; i >= 0; i-- {
							ev, ok := u.loadCell(st, u.listCell(xv.List, xv.LOff+i)).(PtrV)
							if !ok {
								okAll = false
								break
							}
							nilAt = Ite(Eq(idx, IntLit(int64(i))), ev.Nil, nilAt)
						}
						if okAll {
							u.assume(Eq(pv.Nil, nilAt))
							st.cells[c.ID] = pv
						}
					}
				}
			}
			return PtrV{Nil: TFalse, Cell: c, Elem: xv.Elem}
		}
		return PtrV{Nil: TFalse, Cell: u.listCell(xv.List, xv.LOff+int(idx.I.Int64())), Elem: xv.Elem}
	case PtrV:
		at := in.X.Type().Underlying().(*types.Pointer).Elem().Underlying().(*types.Array)
		u.safety(st, fr, in.Pos(), "nil dereference (index)", Not(xv.Nil))
		u.safety(st, fr, in.Pos(), "index out of range", And(Le(IntLit(0), idx), Lt(idx, IntLit(at.Len()))))
		if xv.Cell == nil {
			return PtrV{Nil: TFalse, Cell: u.newCell(at.Elem(), true, false, "afternil"), Elem: at.Elem()}
		}
		if isByte(at.Elem()) {
			cur := u.loadCell(st, xv.Cell)
			for _, i := range xv.Path {
				cur = u.project(st, cur, i)
			}
			if ref, ok := cur.(ArrRefV); ok {
				return PtrV{Nil: TFalse, Blk: ref.Blk, Idx: idx, Elem: at.Elem()}
			}
			return PtrV{Nil: TFalse, Cell: xv.Cell, Path: xv.Path, ElemIdx: idx, Elem: at.Elem()}
		}
		if !idx.IsInt {
			u.limit("symbolic index into a non-byte array in %s", FuncName(fr.fn))
			return PtrV{Nil: TFalse, Cell: u.newCell(at.Elem(), true, false, "symidx"), Elem: at.Elem()}
		}
		return PtrV{Nil: TFalse, Cell: xv.Cell, Path: append(append([]int(nil), xv.Path...), int(idx.I.Int64())), Elem: at.Elem()}
	}
	panic(fmt.Sprintf("indexAddr on %T", x))
}

func (u *Unit) index(st *State, fr *Frame, in *ssa.Index) Val {
	x := u.get(st, fr, in.X)
	idx := u.get(st, fr, in.Index).(*Term)
	switch xv := x.(type) {
	case ArrV:
		u.safety(st, fr, in.Pos(), "index out of range", And(Le(IntLit(0), idx), Lt(idx, IntLit(xv.N))))
		b := WithBounds(Select(xv.Arr, idx), big.NewInt(0), big.NewInt(255))
		u.byteFact(b)
		return b
	case ArrTupleV:
		u.safety(st, fr, in.Pos(), "index out of range", And(Le(IntLit(0), idx), Lt(idx, IntLit(int64(len(xv.E))))))
		if idx.IsInt {
			return xv.E[idx.I.Int64()]
		}
	case StrV:
		u.safety(st, fr, in.Pos(), "index out of range", And(Le(IntLit(0), idx), Lt(idx, xv.Len)))
		b := WithBounds(Select(xv.Arr, idx), big.NewInt(0), big.NewInt(255))
		u.byteFact(b)
		return b
	}
	u.limit("unmodelled index on %T in %s", x, FuncName(fr.fn))
	return u.freshVal(st, in.Type(), "idx", false)
}

func (u *Unit) optTerm(st *State, fr *Frame, v ssa.Value, def *Term) *Term {
	if v == nil {
		return def
	}
	return u.get(st, fr, v).(*Term)
}

func (u *Unit) sliceOp(st *State, fr *Frame, in *ssa.Slice) Val {
	x := u.get(st, fr, in.X)
	switch xv := x.(type) {
	case SliceV:
		lo := u.optTerm(st, fr, in.Low, IntLit(0))
		hi := u.optTerm(st, fr, in.High, xv.Len)
		mx := u.optTerm(st, fr, in.Max, xv.Cap)
		u.safety(st, fr, in.Pos(), "slice bounds out of range", And(Le(IntLit(0), lo), Le(lo, hi), Le(hi, mx), Le(mx, xv.Cap)))
		r := SliceV{Blk: xv.Blk, Off: Add(xv.Off, lo), Len: Sub(hi, lo), Cap: Sub(mx, lo), Elem: xv.Elem, List: xv.List, LOff: xv.LOff}
		if xv.List != nil {
			if !lo.IsInt {
				u.limit("symbolic low bound slicing a non-byte slice in %s", FuncName(fr.fn))
			} else {
				r.LOff = xv.LOff + int(lo.I.Int64())
				r.Off = IntLit(0)
			}
		}
		return r
	case StrV:
		lo := u.optTerm(st, fr, in.Low, IntLit(0))
		hi := u.optTerm(st, fr, in.High, xv.Len)
		u.safety(st, fr, in.Pos(), "slice bounds out of range", And(Le(IntLit(0), lo), Le(lo, hi), Le(hi, xv.Len)))
		if lo.IsInt && lo.I.Sign() == 0 {
			if xv.IsLit && hi.IsInt {
				return u.strLit(xv.Lit[:hi.I.Int64()])
			}
			return StrV{Arr: xv.Arr, Len: hi}
		}
		if xv.IsLit && lo.IsInt && hi.IsInt {
			return u.strLit(xv.Lit[lo.I.Int64():hi.I.Int64()])
		}
		lon := u.name(lo, "lo")
		xA := xv.Arr
		return StrV{Arr: u.mkArr(func(j *Term) *Term { return Select(xA, Add(lon, j)) }), Len: Sub(hi, lo)}
	case PtrV:
		at := in.X.Type().Underlying().(*types.Pointer).Elem().Underlying().(*types.Array)
		n := at.Len()
		u.safety(st, fr, in.Pos(), "nil dereference (slice of array)", Not(xv.Nil))
		lo := u.optTerm(st, fr, in.Low, IntLit(0))
		hi := u.optTerm(st, fr, in.High, IntLit(n))
		mx := u.optTerm(st, fr, in.Max, IntLit(n))
		u.safety(st, fr, in.Pos(), "slice bounds out of range", And(Le(IntLit(0), lo), Le(lo, hi), Le(hi, mx), Le(mx, IntLit(n))))
		if xv.Cell != nil && !isByte(at.Elem()) {
			// compiler-built argument array (varargs) or a local array: snapshot
			// the elements into a list (the array is not written afterwards in
			// the varargs pattern; other uses are reported)
			if al, ok := in.X.(*ssa.Alloc); !ok || (al.Comment != "varargs" && al.Comment != "slicelit" && al.Comment != "makeslice") {
				c := "?"
				if ok {
					c = al.Comment
				}
				u.limit("slice of a non-byte array (%s) in %s", c, FuncName(fr.fn))
			}
			cur := u.loadPath(st, xv)
			tv, ok := cur.(ArrTupleV)
			if ok && lo.IsInt && hi.IsInt {
				lst := u.newList(at.Elem(), false)
				l, h := int(lo.I.Int64()), int(hi.I.Int64())
				for i := l; i < h && i < len(tv.E); i++ {
					st.cells[u.listCell(lst, i-l).ID] = tv.E[i]
				}
				return SliceV{Blk: u.allocID(st), Off: IntLit(0), Len: IntLit(int64(h - l)), Cap: Sub(mx, lo), Elem: at.Elem(), List: lst}
			}
			return u.freshVal(st, in.Type(), "slarr", false)
		}
		if xv.Cell == nil {
			return u.freshVal(st, in.Type(), "slarr", false)
		}
		blk := u.promote(st, xv, n)
		return SliceV{Blk: blk, Off: lo, Len: Sub(hi, lo), Cap: Sub(mx, lo), Elem: at.Elem()}
	}
	panic(fmt.Sprintf("slice of %T", x))
}

func (u *Unit) makeSlice(st *State, fr *Frame, in *ssa.MakeSlice) Val {
	l := u.get(st, fr, in.Len).(*Term)
	c := u.get(st, fr, in.Cap).(*Term)
	et := in.Type().Underlying().(*types.Slice).Elem()
	u.safety(st, fr, in.Pos(), "make: size out of range", And(Le(IntLit(0), l), Le(l, c), Le(c, BigLit(MaxAlloc))))
	if isByte(et) {
		r := u.allocBytes(st)
		return SliceV{Blk: r.Blk, Off: IntLit(0), Len: l, Cap: c, Elem: et}
	}
	lst := u.newList(et, false)
	return SliceV{Blk: u.allocID(st), Off: IntLit(0), Len: l, Cap: c, Elem: et, List: lst}
}

func (u *Unit) lookup(st *State, fr *Frame, in *ssa.Lookup) Val {
	x := u.get(st, fr, in.X)
	if s, ok := x.(StrV); ok {
		idx := u.get(st, fr, in.Index).(*Term)
		u.safety(st, fr, in.Pos(), "index out of range", And(Le(IntLit(0), idx), Lt(idx, s.Len)))
		b := WithBounds(Select(s.Arr, idx), big.NewInt(0), big.NewInt(255))
		u.byteFact(b)
		return b
	}
	m, _ := x.(MapV)
	key := u.get(st, fr, in.Index)
	vt := in.X.Type().Underlying().(*types.Map).Elem()
	var val Val
	var ok *Term
	if m.Global != nil {
		val, ok = u.tableLookup(st, m.Global, key, vt)
	} else if lm := u.localMapLookup(st, m, key, vt); lm != nil {
		val, ok = lm.v, lm.ok
	} else {
		val = u.freshVal(st, vt, "mapval", false)
		ok = u.newBool("mapok")
		if m.ID == 0 && !m.Opaque {
			val, ok = u.zeroVal(vt), TFalse
		}
	}
	if in.CommaOk {
		return TupleV{E: []Val{val, ok}}
	}
	return val
}

type mapHit struct {
	v  Val
	ok *Term
}

func (u *Unit) typeAssert(st *State, fr *Frame, in *ssa.TypeAssert) Val {
	x := u.get(st, fr, in.X).(IfaceV)
	var ok *Term
	var val Val
	if x.Dyn != nil {
		match := false
		if types.IsInterface(in.AssertedType) {
			match = types.Implements(x.Dyn, in.AssertedType.Underlying().(*types.Interface))
			val = x
		} else {
			match = types.Identical(x.Dyn, in.AssertedType)
			if match {
				val = x.V
			}
		}
		ok = And(Not(x.Nil), BoolLit(match))
		if !match {
			val = u.zeroVal(in.AssertedType)
		}
	} else {
		if x.Nil.IsBool && x.Nil.B {
			ok = TFalse
			val = u.zeroVal(in.AssertedType)
		} else {
			okc := u.newBool("assert_ok")
			ok = And(Not(x.Nil), okc)
			if types.IsInterface(in.AssertedType) {
				val = x
			} else {
				val = u.freshVal(st, in.AssertedType, "asserted", false)
			}
		}
	}
	if in.CommaOk {
		return TupleV{E: []Val{val, ok}}
	}
	u.safety(st, fr, in.Pos(), "failed type assertion", ok)
	return val
}
