package gvc

import (
	"sync"
	"encoding/json"
	"fmt"
	"os"
	"path/filepath"
	"sort"
	"strings"
	"time"
)

// PropertyPlan describes how a property is decided.
type PropertyPlan struct {
	ID       string
	Level    string
	Special  func(p *Program, tier string) []UnitSpec // generated units (sweeps)
	Trusted  []string
	Note     string
}

var Plans = map[string]*PropertyPlan{}

func specialC04(p *Program, tier string) []UnitSpec {
	var out []UnitSpec
	for _, fn := range p.EntryPoints() {
		// (a) the body of every parser / decoder / lookup: no panic for any input
		out = append(out, UnitSpec{Fn: fn, Opt: Options{UseRequires: true}, Why: "root", Kind: "sweep"})
		// (b) every exported method on every value the function can return
		// without error - through the function's contract where it has one
		if p.ContractOf(fn) != nil {
			out = append(out, UnitSpec{Fn: fn, Opt: Options{UseRequires: true, MethodsOnSuccess: true, ViaContract: true}, Why: "root", Kind: "methods"})
		}
	}
	return out
}

// specialC20: (a) every exported argument-free method on the zero value of
// every exported struct/array/slice type, (b) the same methods on the value a
// parser returns together with an error.
func specialC20(p *Program, tier string) []UnitSpec {
	var out []UnitSpec
	cfg := DefaultConfig()
	cfg.InlineOnPreFail = true
	if tier != "thorough" {
		cfg.QuickLoopCap = 1
	} else {
		cfg.QuickLoopCap = 2
		cfg.MaxPaths = 80000
		cfg.UnitSec = 3000
	}
	for _, fn := range p.EntryPoints() {
		c := cfg
		out = append(out, UnitSpec{Fn: fn, Opt: Options{UseRequires: false, MethodsOnError: true}, Cfg: &c, Why: "root", Kind: "sweep"})
	}
	for _, fn := range p.AllRepoFuncs() {
		if !Exported(fn) || fn.Signature.Recv() == nil || fn.Signature.Params().Len() != 0 {
			continue
		}
		c := cfg
		out = append(out, UnitSpec{Fn: fn, Opt: Options{ZeroRecv: true}, Cfg: &c, Why: "root", Kind: "zero"})
	}
	return out
}

// mutators: methods that are meant to write their receiver (excluded from the
// read-only frame obligations of C18).
var mutatorNames = map[string]bool{"String": true, "GoString": true, "DecryptInnerData": true, "EncryptInnerLeaseSet2": true, "EncryptInnerData": true, "SetBytes": true, "AddAddress": true, "Add": true, "WithType": true, "WithPayload": true, "WithKeyTypes": true, "WithSigningType": true, "WithCryptoType": true, "Build": true}

// specialC18: every exported read-only method of every type, and every
// exported function that only takes plain data, must not store into memory
// that existed before the call nor into package-level state.
func specialC18(p *Program, tier string) []UnitSpec {
	var out []UnitSpec
	cfg := DefaultConfig()
	cfg.FrameCheck = true
	cfg.FrameSummary = true
	cfg.Safety = false
	cfg.QuickLoopCap = 1
	if tier == "thorough" {
		cfg.QuickLoopCap = 2
		cfg.MaxPaths = 80000
		cfg.UnitSec = 3000
	}
	// receivers are arbitrary values of their type; where a callee under
	// contract requires a representation invariant of a component (CertInv,
	// KacInv, ...) the invariant is assumed from there on: C18 is about
	// values the parsers and constructors produce
	for _, fn := range p.AllRepoFuncs() {
		if !Exported(fn) {
			continue
		}
		if fn.Signature.Recv() != nil {
			if mutatorNames[fn.Name()] {
				continue
			}
		} else {
			ok := len(fn.Params) > 0
			for _, prm := range fn.Params {
				if !plainParam(prm.Type()) {
					ok = false
				}
			}
			if !ok {
				continue
			}
		}
		c := cfg
		out = append(out, UnitSpec{Fn: fn, Opt: Options{UseRequires: true}, Cfg: &c, Why: "root", Kind: "frame"})
	}
	return out
}

func init() {
	defer func() {
		Plans["C04"].Special = specialC04
		Plans["C20"].Special = specialC20
		Plans["C18"].Special = specialC18
		Plans["C18"].Note = "Decided by reduction: every read-only operation is proved to store only into memory it allocated itself and into no package-level variable (sequential frame condition); by the Go memory model any interleaving of such operations on shared values is then race-free and each call returns what it returns alone. The step from the frame condition to all interleavings is this stated meta-theorem, not something the solver checked."
	}()
	for _, id := range []string{"C01", "C02", "C03", "C04", "C05", "C06", "C07", "C08", "C09", "C10", "C11", "C12", "C13", "C14", "C15", "C16", "C17", "C18", "C19", "C20"} {
		Plans[id] = &PropertyPlan{ID: id, Level: "proof"}
	}
}

var baseTrusted = []string{
	"T-ENG: the VC generator gvc (SSA semantics as implemented in /verif/engine); guarded by the must-fail lemmas T_* of the contract files and the seeded changes under /verif/seeded",
	"T-SSA: go/packages + go/ssa (x/tools v0.29.0) lower the source faithfully",
	"T-SMT: z3 5.1.0 / z3 4.8.12 / cvc5 1.0.3 are sound",
	"A-LEN: every slice/string that exists has length and capacity at most 2^40 (1 TiB); make() panics beyond 2^47 bytes",
	"A-NOALIAS-IN: distinct slice/pointer parameters (and slice-typed fields of parameters) do not overlap in memory",
	"A-GLOBALS: package-level tables and error values keep the values their initialisers give them (checked for the code under verification by frame obligations; not checkable for clients)",
}

type Evidence struct {
	PropertyID  string                 `json:"property_id"`
	Tier        string                 `json:"tier"`
	Seed        int                    `json:"seed"`
	Level       string                 `json:"level"`
	Coverage    map[string]interface{} `json:"coverage"`
	Assumptions []string               `json:"assumptions"`
	WallS       float64                `json:"wall_s"`
	Violations  int                    `json:"violations"`
}

type replayFile struct {
	Property   string            `json:"property"`
	Obligation string            `json:"obligation"`
	Kind       string            `json:"kind"`
	Func       string            `json:"func"`
	Clause     string            `json:"clause"`
	Status     string            `json:"status"`
	Solver     string            `json:"solver"`
	Model      map[string]string `json:"model,omitempty"`
	Trace      []string          `json:"trace,omitempty"`
	SolverOut  string            `json:"solver_output"`
	Script     string            `json:"smt_script,omitempty"`
	GoTest     string            `json:"go_test,omitempty"`
	TestPkg    string            `json:"test_pkg,omitempty"`
	Replayed   string            `json:"replay_result,omitempty"`
	Note       string            `json:"note,omitempty"`
}

func obFile(name string) string {
	s := sanitize(name)
	if len(s) > 120 {
		s = s[:120]
	}
	return s
}

// RunProperty runs the check of one property; returns the process exit code.
func RunProperty(repo, verifDir, prop, tier string, seed int) int {
	t0 := time.Now()
	plan := Plans[prop]
	if plan == nil {
		fmt.Println("unknown property", prop)
		return 2
	}
	p, err := Load(repo, true)
	if err != nil {
		fmt.Println("LOAD ERROR:", err)
		return 2
	}
	cfg := DefaultConfig()
	cfg.QuickLoopCap = 1
	if tier == "thorough" {
		// deeper than quick: count loops (unroll 16) explored to 2 back edges
		// (3 bodies) - complete unrolling of 16 x 16 keys and leases is out of
		// reach (path explosion) - longer solver budgets, the _T lemmas
		cfg.QueryMs = 30000
		cfg.MaxPaths = 80000
		cfg.QuickLoopCap = 2
		cfg.UnitSec = 3000
	}
	// orphaned contracts are a fault of the check, not a pass
	var faults []string
	for path, sf := range p.Specs {
		for _, key := range sf.Order {
			if p.LookupFunc(path, key) == nil {
				faults = append(faults, fmt.Sprintf("contract %s in %s has no function", key, path))
			}
		}
	}
	fns, lemmas := p.rootsFor(prop)
	var specs []UnitSpec
	for _, fn := range fns {
		specs = append(specs, UnitSpec{Fn: fn, Opt: Options{UseRequires: true, CheckPosts: true}, Why: "root", Kind: "function"})
	}
	var thoroughOnly []string
	for _, fn := range lemmas {
		if strings.HasSuffix(fn.Name(), "_T") && tier != "thorough" {
			thoroughOnly = append(thoroughOnly, strings.TrimPrefix(fn.Name(), "gvcL_"))
			continue // heavy lemma: thorough tier only (listed in the evidence)
		}
		specs = append(specs, UnitSpec{Fn: fn, Opt: Options{}, Why: "root", Kind: "lemma"})
	}
	if plan.Special != nil {
		specs = append(specs, plan.Special(p, tier)...)
	}
	if os.Getenv("GVC_PROGRESS") != "" {
		Progress = func(r *UnitResult) { fmt.Fprintln(os.Stderr, "done:", r.Summary()) }
	}
	if f := os.Getenv("GVC_UNITS"); f != "" { // debugging aid: restrict the roots
		var keep []UnitSpec
		for _, sp := range specs {
			if strings.Contains(FuncName(sp.Fn), f) {
				keep = append(keep, sp)
			}
		}
		specs = keep
	}
	units := p.closeOverContracts(cfg, specs)
	obls, order := mergeObls(units)

	// canaries: the must-fail lemmas (T_mustfail*) of the contract files are
	// run on every check; an engine that "proves" one of them is unsound and
	// nothing it reports may be believed
	var canarySpecs []UnitSpec
	for path, sf := range p.Specs {
		sp := p.ByPath[path]
		if sp == nil {
			continue
		}
		for _, lm := range sf.Lemmas {
			if strings.HasPrefix(lm.Name, "T_mustfail") {
				if fn := sp.Func(lm.Func); fn != nil {
					canarySpecs = append(canarySpecs, UnitSpec{Fn: fn, Opt: Options{}, Why: "canary", Kind: "lemma"})
				}
			}
		}
	}
	canariesOK := 0
	for _, r := range RunUnits(p, canarySpecs, cfg) {
		failedOne := false
		for _, o := range r.Obls {
			if o.Kind == "lemma" && o.Status != "proved" {
				failedOne = true
			}
		}
		if failedOne {
			canariesOK++
		} else {
			faults = append(faults, "must-fail canary "+r.Name+" was proved: the engine is unsound")
		}
	}

	// portfolio pass over everything not proved by the incremental solver
	solverCount := map[string]int{}
	var solverTime float64
	var pmu sync.Mutex
	var pwg sync.WaitGroup
	psem := make(chan struct{}, 10)
	ptimeout := 12 * time.Second
	if tier == "thorough" {
		ptimeout = 90 * time.Second
	}
	for _, n := range order {
		o := obls[n]
		solverTime += o.TimeS
		if o.Status == "proved" {
			if o.Instances == o.Trivial {
				solverCount["constant folding"]++
			} else {
				solverCount[o.Solver]++
			}
			continue
		}
		if o.Script == "" {
			continue
		}
		// portfolio on the recorded failing instance (in parallel).  "unsat"
		// here only upgrades an "unknown" whose other instances were proved.
		pwg.Add(1)
		go func(o *Obligation) {
			defer pwg.Done()
			psem <- struct{}{}
			defer func() { <-psem }()
			for _, bin := range []string{"z3-new", "z3"} {
				r, d := RunScript(bin, o.Script, ptimeout)
				pmu.Lock()
				solverTime += d.Seconds()
				if r == "unsat" {
					if o.Status == "unknown" && o.Instances-o.Trivial <= 1 {
						o.Status = "proved"
						o.Solver = bin + " (standalone)"
						solverCount[o.Solver]++
					}
					pmu.Unlock()
					return
				}
				if r == "sat" {
					o.Status = "failed"
					o.Solver = bin + " (standalone)"
					pmu.Unlock()
					return
				}
				pmu.Unlock()
			}
		}(o)
	}
	pwg.Wait()

	known := loadKnown(verifDir)
	isKnown := func(name string) *KnownFinding {
		for i := range known {
			k := &known[i]
			if k.Status != "fixed" && k.Obligation == name {
				// a finding recorded under another property is the same failing
				// obligation when it is pulled in here as a dependency
				return k
			}
		}
		return nil
	}

	// property filter: obligations that belong to this property are all
	// obligations of the units run for it, except safety obligations (C04
	// only) and frame obligations (C18 only) unless this is that property.
	belongs := func(o *Obligation) bool {
		switch o.Kind {
		case "safety", "unwind", "elem":
			return prop == "C04" || prop == "C20"
		case "frame":
			return prop == "C18"
		case "pre", "post", "zero", "lemma":
			if prop == "C18" {
				// C18 is decided by the frame obligations, plus the clauses
				// that establish the representation invariants (cap == len)
				// those frame proofs assume
				for _, t := range o.Props {
					if t == "C18" {
						return true
					}
				}
				return false
			}
		case "noalias":
			return prop == "C08"
		}
		return true
	}

	replayDir := filepath.Join(verifDir, "replays", prop)
	os.RemoveAll(replayDir)
	var violations, knownLines []string
	total, discharged, boundedN := 0, 0, 0
	var samples []map[string]string
	for _, n := range order {
		o := obls[n]
		if !belongs(o) {
			continue
		}
		if k := isKnown(n); k != nil {
			if o.Status != "proved" {
				knownLines = append(knownLines, fmt.Sprintf("KNOWN-FINDING: property=%s %s: %s", prop, n, k.What))
			} else {
				knownLines = append(knownLines, fmt.Sprintf("NOTE: listed finding no longer fails: property=%s %s", prop, n))
			}
			continue
		}
		total++
		if o.Status == "proved" {
			discharged++
			if len(samples) < 6 {
				samples = append(samples, map[string]string{"obligation": n, "kind": o.Kind, "clause": o.Text, "answer": "unsat (" + o.Solver + ")"})
			}
			continue
		}
		// violation
		os.MkdirAll(replayDir, 0o755)
		rf := replayFile{Property: prop, Obligation: n, Kind: o.Kind, Func: o.Func, Clause: o.Text, Status: o.Status, Solver: o.Solver, Trace: o.Trace, Script: o.Script}
		if o.Status == "failed" {
			rf.SolverOut = "sat: the negated obligation is satisfiable on the recorded path"
		} else {
			rf.SolverOut = "unknown/timeout: the obligation is no longer discharged"
		}
		confirmed := false
		if o.Status == "failed" {
			confirmed = buildReplay(p, units, o, &rf, repo)
		}
		path := filepath.Join(replayDir, obFile(n)+".json")
		b, _ := json.MarshalIndent(rf, "", " ")
		os.WriteFile(path, b, 0o644)
		line := fmt.Sprintf("VIOLATION property=%s replay=%s", prop, path)
		if !confirmed {
			line += " no-failing-input-found"
		}
		violations = append(violations, line)
	}

	// units summary, assumptions
	assumed := map[string]bool{}
	var limits []string
	inlined := map[string]bool{}
	var bounded []string
	var funcsUnderContract []string
	nAssume := 0
	for _, r := range units {
		for a := range r.Assumed {
			assumed[a] = true
		}
		for _, l := range r.Limits {
			limits = append(limits, r.Name+": "+l)
		}
		for f := range r.Inlined {
			inlined[f] = true
		}
		bounded = append(bounded, r.Bounded...)
		if r.Kind == "function" {
			funcsUnderContract = append(funcsUnderContract, r.Name)
		}
		nAssume += r.NAssume
		if r.Panic != "" {
			faults = append(faults, r.Name+": engine panic: "+r.Panic)
		}
	}
	sort.Strings(funcsUnderContract)
	sort.Strings(limits)
	for _, l := range limits {
		// an engine limit means some obligation may be undecided: never a pass
		if strings.Contains(l, "VACUOUS") || strings.Contains(l, "path cap") || strings.Contains(l, "engine panic") || strings.Contains(l, "vacuous") {
			faults = append(faults, l)
		}
	}
	if total == 0 {
		faults = append(faults, "no obligations generated for "+prop)
	}
	// reachability guard: every postcondition / lemma assertion that was
	// generated (and discharged) on the unchanged tree must be generated again -
	// an obligation that silently disappears (all paths to it cut or made
	// infeasible) would otherwise count as "nothing failed"
	expDir := filepath.Join(verifDir, "expected")
	if _, err := os.Stat(expDir); err != nil {
		if exe, err2 := os.Executable(); err2 == nil {
			expDir = filepath.Join(filepath.Dir(filepath.Dir(exe)), "expected")
		}
	}
	expFile := filepath.Join(expDir, prop+"."+tier+".txt")
	if os.Getenv("GVC_WRITE_EXPECTED") != "" {
		var names []string
		for _, n := range order {
			o := obls[n]
			if belongs(o) && (o.Kind == "post" || o.Kind == "lemma") {
				names = append(names, n)
			}
		}
		sort.Strings(names)
		os.MkdirAll(filepath.Join(verifDir, "expected"), 0o755)
		os.WriteFile(filepath.Join(verifDir, "expected", prop+"."+tier+".txt"), []byte(strings.Join(names, "\n")+"\n"), 0o644)
	} else if eb, err := os.ReadFile(expFile); err == nil {
		missing := 0
		for _, n := range strings.Split(string(eb), "\n") {
			if n == "" {
				continue
			}
			if o, ok := obls[n]; !ok || o.Instances == 0 {
				missing++
				if missing <= 5 {
					faults = append(faults, "expected obligation was not generated (unreachable on this tree?): "+n)
				}
			}
		}
		if missing > 5 {
			faults = append(faults, fmt.Sprintf("... and %d more expected obligations not generated", missing-5))
		}
	}
	_ = boundedN

	trusted := append([]string(nil), baseTrusted...)
	trusted = append(trusted, plan.Trusted...)
	var as []string
	for a := range assumed {
		as = append(as, a)
	}
	sort.Strings(as)
	specAssumes, specTrusted, specBounded := 0, 0, 0
	for _, sf := range p.Specs {
		specAssumes += sf.NAssume
		specTrusted += sf.NTrusted
		specBounded += sf.NBounded
	}
	var unitNames []map[string]interface{}
	for _, r := range units {
		unitNames = append(unitNames, map[string]interface{}{"unit": r.Name, "kind": r.Kind, "paths": r.Paths, "obligations": len(r.Obls), "time_s": round3(r.TimeS)})
	}
	ev := Evidence{
		PropertyID: prop, Tier: tier, Seed: seed, Level: plan.Level,
		Coverage: map[string]interface{}{
			"obligations":              total,
			"discharged":               discharged,
			"checker_cmd":              fmt.Sprintf("bin/gvc check --repo %s --property %s --tier %s", repo, prop, tier),
			"trusted_base":             trusted,
			"samples":                  samples,
			"functions_under_contract": funcsUnderContract,
			"units":                    unitNames,
			"inlined":                  keysOf(inlined),
			"by_solver":                solverCount,
			"solver_time_s":            round3(solverTime),
			"bounded":                  bounded,
			"engine_limits":            limits,
			"known_findings":           len(knownLines),
			"assumption_scan":          map[string]int{"assume_in_spec_files": specAssumes, "trusted_contracts": specTrusted, "bounded_loops": specBounded, "assume_calls_executed": nAssume},
			"source_digest":            SourceDigest(repo),
			"faults":                   faults,
			"lemmas_run_in_thorough_tier_only": thoroughOnly,
			"must_fail_canaries_failed_as_expected": canariesOK,
		},
		Assumptions: as,
		WallS:       round3(time.Since(t0).Seconds()),
		Violations:  len(violations),
	}
	if plan.Note != "" {
		ev.Coverage["explanation"] = plan.Note
	}
	os.MkdirAll(filepath.Join(verifDir, "evidence"), 0o755)
	b, _ := json.MarshalIndent(ev, "", " ")
	os.WriteFile(filepath.Join(verifDir, "evidence", prop+".json"), b, 0o644)

	for _, l := range knownLines {
		fmt.Println(l)
	}
	for _, l := range violations {
		fmt.Println(l)
	}
	fmt.Printf("%s %s: obligations=%d discharged=%d violations=%d known=%d units=%d wall=%.1fs\n", prop, tier, total, discharged, len(violations), len(knownLines), len(units), time.Since(t0).Seconds())
	if len(faults) > 0 {
		for _, f := range faults {
			fmt.Println("FAULT:", f)
		}
		if len(violations) > 0 {
			return 1
		}
		return 2
	}
	if len(violations) > 0 {
		return 1
	}
	return 0
}

func keysOf(m map[string]bool) []string {
	var ks []string
	for k := range m {
		ks = append(ks, k)
	}
	sort.Strings(ks)
	return ks
}

func round3(f float64) float64 { return float64(int(f*1000+0.5)) / 1000 }
