package gvc

import (
	"go/types"

	"golang.org/x/tools/go/ssa"
)

// Signatures: the verification primitives of the dependencies (crypto/ed25519,
// go-i2p/crypto Verifier/Signer objects) are uninterpreted.  What a run of the
// code learns about them is recorded in a ghost log: each entry says "the
// primitive with algorithm alg was asked about (key, data, sig) and answered
// v".  The specification predicate sigvalid(key, data, sig) is decided from
// that log only:
//   - as a proof goal it holds iff some entry with equal key, data and
//     signature bytes answered true (so "Verify() == nil ==> sigvalid(...)" is
//     provable exactly when the code really asked the primitive about those
//     bytes and returned success only on a positive answer);
//   - as a hypothesis (a callee's postcondition, a precondition) it adds an
//     entry.
// Two entries with equal algorithm, key, data and signature have equal
// answers (the primitives are deterministic functions).

type seqRef struct{ a, o, l *Term }

type sigEntry struct {
	alg            *Term
	key, data, sig seqRef
	v              *Term
	scope          int
	signed         bool // entry of a signing primitive (its answer is the signer's success)
}

func (u *Unit) seqRefOf(st *State, v Val) seqRef {
	a, o, l := u.seqOf(st, v)
	return seqRef{a, o, l}
}

func (u *Unit) liveSigLog() []*sigEntry {
	live := u.sigLog[:0]
	for _, e := range u.sigLog {
		if u.S.Alive(e.scope) {
			live = append(live, e)
		}
	}
	u.sigLog = live
	return live
}

// hypSeqEq: sequence equality usable in both polarities of a hypothesis: the
// witness index of the named equality is activated at once.
func (u *Unit) hypSeqEq(x, y seqRef) *Term {
	saved := u.goalMode
	u.goalMode = 0
	t := u.seqEqTerm(x.a, x.o, x.l, y.a, y.o, y.l)
	u.goalMode = saved
	if f := u.seqByName[t.S]; f != nil {
		u.activate(f)
	}
	return t
}

func (u *Unit) goalSeqEq(x, y seqRef) *Term {
	u.goalMode++
	t := u.seqEqTerm(x.a, x.o, x.l, y.a, y.o, y.l)
	u.goalMode--
	return t
}

// logSig records a query of a verification / signing primitive and returns its
// answer v (a fresh boolean unless fixed is given).
func (u *Unit) logSig(st *State, alg *Term, key, data, sig seqRef, fixed *Term) *Term {
	v := fixed
	if v == nil {
		v = u.newBool("sigok")
	}
	for _, e := range u.liveSigLog() {
		if !e.signed && fixed == nil {
			// determinism is only put to use between a signing and a
			// verification (what was signed verifies); two verifications
			// with unknown answers are not compared
			continue
		}
		m := And(Eq(alg, e.alg), u.hypSeqEq(key, e.key), u.hypSeqEq(data, e.data), u.hypSeqEq(sig, e.sig))
		if m.IsBool && !m.B {
			continue
		}
		u.assume(Implies(m, Eq(v, e.v)))
	}
	u.sigLog = append(u.sigLog, &sigEntry{alg: alg, key: key, data: data, sig: sig, v: v, scope: u.S.ScopeID(), signed: fixed != nil})
	u.Assumed["A-SIG: signature primitives are uninterpreted deterministic predicates of (algorithm, key bytes, message bytes, signature bytes); sigvalid is what they report"]++
	return v
}

func (u *Unit) sigValid(st *State, key, data, sig seqRef, goal bool) *Term {
	if !goal {
		// hypothesis: some primitive accepts (algorithm left open)
		return u.logSig(st, u.newInt("sigalg"), key, data, sig, nil)
	}
	var alts []*Term
	for _, e := range u.liveSigLog() {
		alts = append(alts, And(e.v, u.goalSeqEq(key, e.key), u.goalSeqEq(data, e.data), u.goalSeqEq(sig, e.sig)))
	}
	if len(alts) == 0 {
		// nothing was ever verified on this path: not provable
		return u.newBool("sigvalid_unknown")
	}
	return Or(alts...)
}

var errType = types.Universe.Lookup("error").Type()

// keyAlg: the verification algorithm behind a key / verifier / signer object
// (an uninterpreted integer per dynamic type or per opaque object).
func (u *Unit) keyAlg(st *State, k IfaceV) *Term {
	if k.Dyn != nil {
		if k.Dyn.String() == "github.com/go-i2p/crypto/ed25519.Ed25519PublicKey" {
			// read from the pinned dependency: its verifier calls crypto/ed25519.Verify
			return IntLit(7)
		}
		key := "alg:" + k.Dyn.String()
		if v, ok := st.memo[key]; ok {
			return v.(*Term)
		}
		if u.algOfType == nil {
			u.algOfType = map[string]*Term{}
		}
		t, ok := u.algOfType[k.Dyn.String()]
		if !ok {
			t = IntLit(int64(1000 + len(u.algOfType)))
			u.algOfType[k.Dyn.String()] = t
		}
		return t
	}
	if k.Opq == nil {
		return u.newInt("alg")
	}
	key := "alg:" + k.Opq.S
	if v, ok := st.memo[key]; ok {
		return v.(*Term)
	}
	t := u.newInt("alg")
	st.memo[key] = t
	return t
}

// keyBytesOf: the byte image of a key object (its Bytes()).
func (u *Unit) keyBytesOf(st *State, fr *Frame, in *ssa.Call, k IfaceV) (seqRef, bool) {
	if k.Opq != nil && k.Dyn == nil {
		key := k.Opq.S
		if v, ok := st.memo["ifbytes:"+key]; ok {
			return u.seqRefOf(st, v), true
		}
		bt := types.NewSlice(types.Typ[types.Uint8])
		s := u.freshVal(st, bt, "keybytes", false).(SliceV)
		u.assume(Eq(s.Len, u.ifaceLen(st, key)))
		u.assume(Implies(Gt(s.Len, IntLit(0)), Neq(s.Blk, IntLit(0))))
		if bound, ok := u.ifBound[key]; ok {
			u.assume(Lt(s.Blk, bound))
		} else {
			u.assume(Lt(s.Blk, Add(st.wm, IntLit(int64(st.nalloc)))))
		}
		u.blkInfo[s.Blk.S] = blkMeta{base: u.ifaceBase(st, key), epoch: len(st.order)}
		st.memo["ifbytes:"+key] = s
		return u.seqRefOf(st, s), true
	}
	if k.Dyn != nil {
		switch v := k.V.(type) {
		case SliceV, ArrV:
			return u.seqRefOf(st, v), true
		}
	}
	return seqRef{}, false
}

func isBytes(t types.Type) bool { return isByteSlice(t) }

// sigObjectModel: Verifier.Verify(data, sig) error / Signer.Sign(data) ([]byte, error)
// on objects obtained from key.NewVerifier() / key.NewSigner().
func (u *Unit) sigObjectModel(st *State, fr *Frame, in *ssa.Call, recv IfaceV, m *types.Func, args []Val) (Val, bool) {
	if recv.Opq == nil || recv.Dyn != nil {
		return nil, false
	}
	sig := m.Type().(*types.Signature)
	owner, hasOwner := u.objOwner[recv.Opq.S]
	switch {
	case m.Name() == "Verify" && sig.Params().Len() == 2 && isBytes(sig.Params().At(0).Type()) && isBytes(sig.Params().At(1).Type()) &&
		sig.Results().Len() == 1 && types.Identical(sig.Results().At(0).Type(), errType):
		var key seqRef
		alg := u.newInt("alg")
		ok := false
		if hasOwner {
			key, ok = u.keyBytesOf(st, fr, in, owner)
			alg = u.keyAlg(st, owner)
		}
		if !ok {
			key = u.seqRefOf(st, u.freshVal(st, types.NewSlice(types.Typ[types.Uint8]), "unknownkey", false))
		}
		v := u.logSig(st, alg, key, u.seqRefOf(st, args[0]), u.seqRefOf(st, args[1]), nil)
		if hasOwner && owner.Dyn != nil && owner.Dyn.String() == "github.com/go-i2p/crypto/ed25519.Ed25519PublicKey" {
			// A-DEP-ED25519 (read from go-i2p/crypto at the pinned version):
			// Ed25519Verifier.Verify returns nil exactly when the signature has
			// 64 bytes, the key 32 and crypto/ed25519.Verify accepts
			u.Assumed["A-DEP-ED25519: go-i2p/crypto Ed25519Verifier.Verify(data, sig) == nil iff len(sig) == 64 && len(key) == 32 && crypto/ed25519.Verify(key, data, sig)"]++
			_, _, sl := u.seqOf(st, args[1])
			return IfaceV{Nil: And(v, Eq(sl, IntLit(64)), Eq(key.l, IntLit(32))), Opq: u.newInt("verr")}, true
		}
		return IfaceV{Nil: v, Opq: u.newInt("verr")}, true
	case m.Name() == "Sign" && sig.Params().Len() == 1 && isBytes(sig.Params().At(0).Type()) &&
		sig.Results().Len() == 2 && isBytes(sig.Results().At(0).Type()) && hasOwner && isDepEd25519Priv(owner):
		// A-DEP-ED25519 (read from go-i2p/crypto at the pinned version):
		// Ed25519Signer.Sign(data) = crypto/ed25519.Sign(k, data), error iff len(k) != 64
		kv, okk := depEd25519PrivBytes(u, st, owner)
		if !okk {
			return nil, false
		}
		u.Assumed["A-DEP-ED25519: go-i2p/crypto Ed25519Signer.Sign(data) == crypto/ed25519.Sign(key, data), error iff len(key) != 64"]++
		a, o, l := u.seqOf(st, kv)
		okb := Eq(l, IntLit(64))
		out := u.freshSig(st, sig.Results().At(0).Type(), 64)
		u.logSig(st, IntLit(7), seqRef{a, Add(o, IntLit(32)), IntLit(32)}, u.seqRefOf(st, args[0]), u.seqRefOf(st, out), okb)
		nilOut := SliceV{Blk: IntLit(0), Off: IntLit(0), Len: IntLit(0), Cap: IntLit(0), Elem: types.Typ[types.Uint8]}
		return TupleV{E: []Val{u.mergeVal(okb, out, nilOut), IfaceV{Nil: okb, Opq: u.newInt("serr")}}}, true
	case m.Name() == "Sign" && sig.Params().Len() == 1 && isBytes(sig.Params().At(0).Type()) &&
		sig.Results().Len() == 2 && isBytes(sig.Results().At(0).Type()):
		// the signature is valid under the public half of the signer's key
		okb := u.newBool("signok")
		out := u.freshVal(st, sig.Results().At(0).Type(), "sigbytes", false).(SliceV)
		u.assume(Ge(out.Blk, Add(st.wm, IntLit(0)))) // allocated by the signer
		var key seqRef
		alg := u.newInt("alg")
		if hasOwner {
			pub := u.publicOf(st, owner)
			if kb, ok := u.keyBytesOf(st, fr, in, pub); ok {
				key = kb
				alg = u.keyAlg(st, pub)
			}
		}
		if key.a != nil {
			u.logSig(st, alg, key, u.seqRefOf(st, args[0]), u.seqRefOf(st, out), okb)
		}
		u.bumpWatermark(st)
		return TupleV{E: []Val{out, IfaceV{Nil: okb, Opq: u.newInt("serr")}}}, true
	}
	return nil, false
}

// publicOf: the public key object that belongs to a private key object
// (memoised: priv.Public() is a function of the key).
func (u *Unit) publicOf(st *State, priv IfaceV) IfaceV {
	if priv.Opq == nil {
		return IfaceV{Nil: TFalse, Opq: u.newInt("pub")}
	}
	key := "pubof:" + priv.Opq.S
	if v, ok := st.memo[key]; ok {
		return v.(IfaceV)
	}
	p := IfaceV{Nil: TFalse, Opq: u.newInt("pub")}
	u.ifBound[p.Opq.S] = Add(st.wm, IntLit(int64(st.nalloc)))
	st.memo[key] = p
	return p
}

// ed25519Model: crypto/ed25519 Verify / VerifyWithOptions / Sign / PrivateKey.Sign.
func (u *Unit) ed25519Model(st *State, fr *Frame, in *ssa.Call, fn *ssa.Function, args []Val) (Val, bool) {
	lenIs := func(v Val, n int64) *Term {
		_, _, l := u.seqOf(st, v)
		return Eq(l, IntLit(n))
	}
	switch fn.String() {
	case "crypto/ed25519.Verify":
		u.safety(st, fr, in.Pos(), "ed25519.Verify: bad public key length", lenIs(args[0], 32))
		return u.logSig(st, IntLit(7), u.seqRefOf(st, args[0]), u.seqRefOf(st, args[1]), u.seqRefOf(st, args[2]), nil), true
	case "crypto/ed25519.VerifyWithOptions":
		u.safety(st, fr, in.Pos(), "ed25519.VerifyWithOptions: bad public key length", lenIs(args[0], 32))
		v := u.logSig(st, u.ed25519OptsAlg(st, args[3]), u.seqRefOf(st, args[0]), u.seqRefOf(st, args[1]), u.seqRefOf(st, args[2]), nil)
		return IfaceV{Nil: v, Opq: u.newInt("verr")}, true
	case "crypto/ed25519.Sign":
		u.assume(lenIs(args[0], 64)) // A-SIGNKEY
		u.Assumed["A-SIGNKEY: private keys handed to signing primitives have the length the primitive requires"]++
		out := u.freshSig(st, in.Type(), 64)
		a, o, _ := u.seqOf(st, args[0])
		pub := seqRef{a, Add(o, IntLit(32)), IntLit(32)}
		u.logSig(st, IntLit(7), pub, u.seqRefOf(st, args[1]), u.seqRefOf(st, out), TTrue)
		return out, true
	case "(crypto/ed25519.PrivateKey).Sign":
		// Sign(rand, message, opts) ([]byte, error)
		okb := u.newBool("signok")
		out := u.freshSig(st, types.NewSlice(types.Typ[types.Uint8]), 64)
		a, o, l := u.seqOf(st, args[0])
		u.assume(Eq(l, IntLit(64))) // A-SIGNKEY
		u.Assumed["A-SIGNKEY: private keys handed to signing primitives have the length the primitive requires"]++
		pub := seqRef{a, Add(o, IntLit(32)), IntLit(32)}
		alg := u.newInt("alg")
		if iv, ok := args[3].(IfaceV); ok && iv.Dyn != nil {
			alg = u.ed25519OptsAlg(st, iv.V)
		}
		u.logSig(st, alg, pub, u.seqRefOf(st, args[2]), u.seqRefOf(st, out), okb)
		return TupleV{E: []Val{out, IfaceV{Nil: okb, Opq: u.newInt("serr")}}}, true
	}
	return nil, false
}

// ed25519OptsAlg: 7 = pure Ed25519 (Hash == 0), 8 = Ed25519ph (Hash == crypto.SHA512 == 7).
func (u *Unit) ed25519OptsAlg(st *State, opts Val) *Term {
	if p, ok := opts.(PtrV); ok && p.Cell != nil {
		if sv, ok := u.loadPath(st, p).(StructV); ok && len(sv.F) > 0 {
			if h, ok := sv.F[0].(*Term); ok {
				return Ite(Eq(h, IntLit(0)), IntLit(7), Ite(Eq(h, IntLit(7)), IntLit(8), u.newInt("alg")))
			}
		}
	}
	return u.newInt("alg")
}

func (u *Unit) freshSig(st *State, t types.Type, n int64) SliceV {
	r := u.allocBytes(st)
	r.C = u.newArr("sig")
	return SliceV{Blk: r.Blk, Off: IntLit(0), Len: IntLit(n), Cap: IntLit(n), Elem: types.Typ[types.Uint8]}
}

// Hashes: SHA-256 is an uninterpreted function of the message bytes.  Each
// call is logged (message, digest); the specification predicate
// ishash(h, data) holds, as a goal, iff some logged call hashed bytes equal
// to data and produced h.  Equal messages have equal digests (asserted
// between log entries through named sequence equalities).
type hashEntry struct {
	data  seqRef
	res   ArrV
	scope int
}

func (u *Unit) hashModel(st *State, args []Val, rt types.Type) (Val, bool) {
	if len(args) != 1 {
		return nil, false
	}
	if _, ok := args[0].(SliceV); !ok {
		return nil, false
	}
	data := u.seqRefOf(st, args[0])
	res := ArrV{Arr: u.newArr("sha256"), N: 32}
	live := u.hashLog[:0]
	for _, e := range u.hashLog {
		if u.S.Alive(e.scope) {
			live = append(live, e)
		}
	}
	u.hashLog = live
	for _, e := range live {
		m := u.hypSeqEq(data, e.data)
		if m.IsBool && !m.B {
			continue
		}
		u.assume(Implies(m, u.seqEqTerm(res.Arr, IntLit(0), IntLit(32), e.res.Arr, IntLit(0), IntLit(32))))
	}
	u.hashLog = append(u.hashLog, &hashEntry{data: data, res: res, scope: u.S.ScopeID()})
	u.Assumed["A-HASH: SHA-256 is an uninterpreted deterministic function of the message bytes; ishash is what the calls computed"]++
	return res, true
}

func (u *Unit) isHash(st *State, h Val, data Val, goal bool) *Term {
	ha, ho, hl := u.seqOf(st, h)
	hs := seqRef{ha, ho, hl}
	d := u.seqRefOf(st, data)
	if !goal {
		res := ArrV{Arr: u.newArr("sha256"), N: 32}
		u.hashLog = append(u.hashLog, &hashEntry{data: d, res: res, scope: u.S.ScopeID()})
		return u.hypSeqEq(hs, seqRef{res.Arr, IntLit(0), IntLit(32)})
	}
	var alts []*Term
	for _, e := range u.hashLog {
		if u.S.Alive(e.scope) {
			alts = append(alts, And(u.goalSeqEq(d, e.data), u.goalSeqEq(hs, seqRef{e.res.Arr, IntLit(0), IntLit(32)})))
		}
	}
	if len(alts) == 0 {
		return u.newBool("ishash_unknown")
	}
	return Or(alts...)
}

func isDepEd25519Priv(k IfaceV) bool {
	if k.Dyn == nil {
		return false
	}
	n := k.Dyn.String()
	return n == "github.com/go-i2p/crypto/ed25519.Ed25519PrivateKey" || n == "*github.com/go-i2p/crypto/ed25519.Ed25519PrivateKey"
}

// depEd25519PrivBytes: the key bytes of a go-i2p/crypto Ed25519PrivateKey (a
// named []byte, possibly behind a pointer).
func depEd25519PrivBytes(u *Unit, st *State, k IfaceV) (Val, bool) {
	switch v := k.V.(type) {
	case SliceV:
		return v, true
	case PtrV:
		if v.Cell != nil {
			if sv, ok := u.loadPath(st, v).(SliceV); ok {
				return sv, true
			}
		}
	}
	return nil, false
}
