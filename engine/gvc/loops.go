package gvc

import (
	"os"
	"fmt"
	"go/token"
	"go/types"
	"sort"
	"strings"

	"golang.org/x/tools/go/ssa"
)

type loop struct {
	header  *ssa.BasicBlock
	blocks  map[*ssa.BasicBlock]bool
	ordinal int
}

type loopInfo struct {
	byHeader map[*ssa.BasicBlock]*loop
	list     []*loop
}

func (u *Unit) loopsOf(fn *ssa.Function) *loopInfo {
	if li, ok := u.loops[fn]; ok {
		return li
	}
	li := &loopInfo{byHeader: map[*ssa.BasicBlock]*loop{}}
	for _, b := range fn.Blocks {
		for _, s := range b.Succs {
			if s.Dominates(b) {
				lp := li.byHeader[s]
				if lp == nil {
					lp = &loop{header: s, blocks: map[*ssa.BasicBlock]bool{s: true}}
					li.byHeader[s] = lp
					li.list = append(li.list, lp)
				}
				// natural loop of back edge b->s
				stack := []*ssa.BasicBlock{b}
				for len(stack) > 0 {
					x := stack[len(stack)-1]
					stack = stack[:len(stack)-1]
					if lp.blocks[x] {
						continue
					}
					lp.blocks[x] = true
					stack = append(stack, x.Preds...)
				}
			}
		}
	}
	sort.Slice(li.list, func(i, j int) bool { return li.list[i].header.Index < li.list[j].header.Index })
	for i, lp := range li.list {
		lp.ordinal = i
	}
	if len(li.list) == 0 {
		li = nil
	}
	u.loops[fn] = li
	return li
}

// LoopSpec is the annotation of one loop.
type LoopSpec struct {
	Mode string // unroll | bounded | invariant
	N    int
	Inv  []string
}

func (u *Unit) loopSpec(fn *ssa.Function, ord int) *LoopSpec {
	if u.P == nil {
		return nil
	}
	if fn.Pkg == nil {
		return nil
	}
	sf := u.P.Specs[fn.Pkg.Pkg.Path()]
	if sf == nil {
		return nil
	}
	return sf.Loops[fmt.Sprintf("%s#%d", shortFuncName(fn), ord)]
}

// atLoopHeader implements the loop modes.  Returns true when it has taken
// over (the path ends here or execution continued from inside).
//
//   unroll N   - execute the loop as it unfolds, with an unwinding obligation
//                after N completed iterations (complete, not bounded)
//   bounded N  - same, but assume exit after N iterations (reported as bounded)
//   havoc      - default: on entry every value the loop may change is replaced
//                by an unconstrained one (plus automatically derived counter
//                facts), the body is executed once from that state and the
//                path ends at the back edge; code after the loop runs on the
//                havocked state.  Unbounded and sound; proves nothing about
//                what the loop computes.
func (u *Unit) atLoopHeader(st *State, fr *Frame, lp *loop, b, pred *ssa.BasicBlock, k Kont) bool {
	key := fmt.Sprintf("%d:%d", fr.id, b.Index)
	spec := u.loopSpec(fr.fn, lp.ordinal)
	mode := "havoc"
	n := u.Cfg.MaxUnroll
	if spec != nil && (spec.Mode == "unroll" || spec.Mode == "bounded") {
		n, mode = spec.N, spec.Mode
	}
	auto := false
	if spec == nil && u.Cfg.AutoConcrete > 0 {
		// no annotation: a loop whose trip count is a small constant on this
		// path (ranging over a short list built earlier on the path) is
		// unrolled completely; otherwise it is havocked
		spec = &LoopSpec{Mode: "concrete", N: u.Cfg.AutoConcrete}
		auto = true
	}
	if spec != nil && spec.Mode == "concrete" {
		// unroll completely when the trip count is a constant on this path
		// (e.g. ranging over a list built earlier on the path), else havoc
		key2 := key + ":mode"
		if pred == nil || !lp.blocks[pred] {
			st.visits[key2] = 0
			if ifi, ok := b.Instrs[len(b.Instrs)-1].(*ssa.If); ok {
				if cmp, ok := ifi.Cond.(*ssa.BinOp); ok {
					if yv, ok := fr.regs[cmp.Y]; ok {
						if t, ok := yv.(*Term); ok && t.IsInt && (!auto || (t.I.IsInt64() && t.I.Int64() <= int64(spec.N))) {
							st.visits[key2] = 1
						}
					} else if c, ok := cmp.Y.(*ssa.Const); ok && c.Value != nil && !auto {
						st.visits[key2] = 1
					}
				}
			}
		}
		if st.visits[key2] == 1 {
			n, mode = spec.N, "unroll"
		}
	}
	if u.Cfg.ForceBounded > 0 {
		mode, n = "bounded", u.Cfg.ForceBounded
	}
	if u.Cfg.QuickLoopCap > 0 && mode == "unroll" && n > u.Cfg.QuickLoopCap && n > 8 && !auto {
		// quick tier: count-bounded loops (<= 16 leases / keys / entries) are
		// explored up to the cap only and reported as bounded; the thorough tier
		// unrolls them completely with the unwinding obligation
		mode, n = "bounded", u.Cfg.QuickLoopCap
	}
	entry := pred == nil || !lp.blocks[pred]
	if mode == "havoc" {
		if !entry {
			return true // back edge: the body has been checked from an arbitrary state
		}
		u.havocLoop(st, fr, lp, b, pred)
		i := 0
		for i < len(b.Instrs) {
			if _, ok := b.Instrs[i].(*ssa.Phi); !ok {
				break
			}
			i++
		}
		u.HavocLoops[fmt.Sprintf("%s loop %d", FuncName(fr.fn), lp.ordinal)]++
		u.runInstrs(st, fr, b, i, k)
		return true
	}
	if entry {
		st.visits[key] = 0
		return false
	}
	c := st.visits[key] + 1
	st.visits[key] = c
	if os.Getenv("GVC_DEBUG_LOOPS") != "" {
		fmt.Fprintf(os.Stderr, "loop %s#%d mode=%s n=%d c=%d spec=%v\n", FuncName(fr.fn), lp.ordinal, mode, n, c, spec != nil)
	}
	if c <= n {
		return false
	}
	name := fmt.Sprintf("%s#unwind:loop %d", FuncName(fr.fn), lp.ordinal)
	if mode == "unroll" {
		// complete unrolling claimed: iteration n+1 must be unreachable
		u.check(st, name, "unwind", TFalse, fmt.Sprintf("loop %d needs at most %d iterations", lp.ordinal, n))
		return true
	}
	tag := fmt.Sprintf("%s loop %d bounded %d", FuncName(fr.fn), lp.ordinal, n)
	found := false
	for _, x := range u.Bounded {
		if x == tag {
			found = true
		}
	}
	if !found {
		u.Bounded = append(u.Bounded, tag)
	}
	return true
}

func addrRoot(v ssa.Value) ssa.Value {
	for {
		switch x := v.(type) {
		case *ssa.FieldAddr:
			v = x.X
		case *ssa.IndexAddr:
			v = x.X
		default:
			return v
		}
	}
}

func pointerish(t types.Type) bool {
	switch x := t.Underlying().(type) {
	case *types.Pointer, *types.Slice, *types.Map, *types.Signature, *types.Interface:
		return true
	case *types.Struct:
		for i := 0; i < x.NumFields(); i++ {
			if pointerish(x.Field(i).Type()) {
				return true
			}
		}
	case *types.Array:
		return pointerish(x.Elem())
	}
	return false
}

// havocLoop replaces everything the loop may modify by unconstrained values.
func (u *Unit) havocLoop(st *State, fr *Frame, lp *loop, hdr, pred *ssa.BasicBlock) {
	// 1. header phis
	idx := -1
	for i, p := range hdr.Preds {
		if p == pred {
			idx = i
		}
	}
	for _, in := range hdr.Instrs {
		ph, ok := in.(*ssa.Phi)
		if !ok {
			break
		}
		name := ph.Comment
		if name == "" {
			name = ph.Name()
		}
		nv := u.freshVal(st, ph.Type(), "lp_"+name, false)
		// automatically derived counter fact: phi = phi + c on every back edge
		if t, ok := nv.(*Term); ok && t.Sort == SInt && idx >= 0 {
			init, ok1 := u.get(st, fr, ph.Edges[idx]).(*Term)
			step := 0
			okAll := ok1
			for j, e := range ph.Edges {
				if j == idx || !lp.blocks[hdr.Preds[j]] {
					continue
				}
				bo, ok := e.(*ssa.BinOp)
				if !ok || (bo.Op != token.ADD && bo.Op != token.SUB) || bo.X != ssa.Value(ph) {
					okAll = false
					break
				}
				c, ok := bo.Y.(*ssa.Const)
				if !ok || c.Value == nil {
					okAll = false
					break
				}
				cv := c.Int64()
				if bo.Op == token.SUB {
					cv = -cv
				}
				if cv > 0 && step >= 0 {
					step = 1
				} else if cv < 0 && step <= 0 {
					step = -1
				} else {
					okAll = false
				}
			}
			if okAll && step > 0 {
				u.assume(Ge(t, init))
			} else if okAll && step < 0 {
				u.assume(Le(t, init))
			}
		}
		// a byte slice that is only ever extended by append stays nil-or-fresh
		if sv, ok := nv.(SliceV); ok && sv.List == nil && idx >= 0 {
			if init, ok := u.get(st, fr, ph.Edges[idx]).(SliceV); ok {
				initFresh := (init.Blk.IsInt && init.Blk.I.Sign() == 0) || u.provable(Or(Eq(init.Blk, IntLit(0)), Ge(init.Blk, u.alloc0)))
				allAppend := initFresh
				for j, e := range ph.Edges {
					if j == idx || !allAppend {
						continue
					}
					if !appendDerived(e, ph, 0) {
						allAppend = false
					}
				}
				if allAppend {
					u.assume(Or(Eq(sv.Blk, IntLit(0)), Ge(sv.Blk, u.alloc0)))
					u.blkInfo[sv.Blk.S] = blkMeta{base: u.alloc0, epoch: len(st.order)}
				}
			}
		}
		fr.regs[ph] = nv
	}
	// 1b. header-controlled counting loops: the previous iteration passed the
	// loop condition, so  phi == init  or  cond held for the previous value.
	if ifi, ok := hdr.Instrs[len(hdr.Instrs)-1].(*ssa.If); ok && idx >= 0 && lp.blocks[hdr.Succs[0]] && !lp.blocks[hdr.Succs[1]] {
		if cmp, ok := ifi.Cond.(*ssa.BinOp); ok && cmp.Block() == hdr && isIntKind(cmp.X.Type()) {
			invariantY := func(v ssa.Value) bool {
				switch y := v.(type) {
				case *ssa.Const, *ssa.Parameter, *ssa.FreeVar:
					return true
				case ssa.Instruction:
					return !lp.blocks[y.Block()]
				}
				return false
			}
			rel := func(a, b *Term) *Term {
				switch cmp.Op {
				case token.LSS:
					return Lt(a, b)
				case token.LEQ:
					return Le(a, b)
				case token.GTR:
					return Gt(a, b)
				case token.GEQ:
					return Ge(a, b)
				case token.NEQ:
					return Neq(a, b)
				}
				return TTrue
			}
			if invariantY(cmp.Y) {
				yv, _ := u.get(st, fr, cmp.Y).(*Term)
				for _, in := range hdr.Instrs {
					ph, ok := in.(*ssa.Phi)
					if !ok {
						break
					}
					if !isIntKind(ph.Type()) || yv == nil {
						continue
					}
					pv := fr.regs[ph].(*Term)
					init, _ := u.get(st, fr, ph.Edges[idx]).(*Term)
					// all back-edge values must be the same BinOp phi+c
					var back *ssa.BinOp
					okAll := true
					for j, e := range ph.Edges {
						if j == idx {
							continue
						}
						bo, ok := e.(*ssa.BinOp)
						if !ok || bo.Op != token.ADD || bo.X != ssa.Value(ph) || (back != nil && back != bo) {
							okAll = false
							break
						}
						if _, isc := bo.Y.(*ssa.Const); !isc {
							okAll = false
							break
						}
						back = bo
					}
					if !okAll || back == nil || init == nil {
						continue
					}
					c := IntLit(back.Y.(*ssa.Const).Int64())
					switch {
					case cmp.X == ssa.Value(ph):
						u.assume(Or(Eq(pv, init), rel(Sub(pv, c), yv)))
					case cmp.X == ssa.Value(back) && back.Block() == hdr:
						u.assume(Or(Eq(pv, init), rel(pv, yv)))
					}
				}
			}
		}
	}
	// 2. memory
	unknown := false
	cells := map[*Cell]bool{}
	var scan func(fn *ssa.Function, blocks []*ssa.BasicBlock, in map[*ssa.BasicBlock]bool)
	scan = func(fn *ssa.Function, blocks []*ssa.BasicBlock, in map[*ssa.BasicBlock]bool) {
		for _, b := range blocks {
			if in != nil && !in[b] {
				continue
			}
			for _, instr := range b.Instrs {
				switch x := instr.(type) {
				case *ssa.Store:
					root := addrRoot(x.Addr)
					if al, ok := root.(*ssa.Alloc); ok && fn == fr.fn {
						if pv, ok := fr.regs[al].(PtrV); ok && pv.Cell != nil {
							cells[pv.Cell] = true
							continue
						}
						if al.Parent() == fn && in != nil && in[al.Block()] {
							continue // allocated inside the loop body
						}
					}
					unknown = true
				case *ssa.MapUpdate:
					if mv, ok := fr.regs[x.Map].(MapV); ok && fn == fr.fn {
						st.maps[mv.ID] = &MapState{Opaque: true}
					} else {
						unknown = true
					}
				case ssa.CallInstruction:
					cc := x.Common()
					if bi, ok := cc.Value.(*ssa.Builtin); ok {
						switch bi.Name() {
						case "copy":
							unknown = true
						case "append":
							if isByteSlice(cc.Args[0].Type()) {
								unknown = true
							}
						case "delete":
							unknown = true
						}
						continue
					}
					callee := cc.StaticCallee()
					if callee != nil {
						if ct := u.P.ContractOf(callee); ct != nil && ct.Modifies == "nothing" {
							continue // proved (or assumed, and then proved in its own unit) not to write
						}
						pk := pkgOf(callee)
						if pk == "github.com/go-i2p/logger" || pk == "github.com/sirupsen/logrus" || pk == "github.com/samber/oops" || pk == "fmt" || pk == "errors" || pk == "strings" || pk == "strconv" {
							continue
						}
					}
					for _, a := range cc.Args {
						if pointerish(a.Type()) {
							unknown = true
						}
					}
					if cc.IsInvoke() {
						unknown = true
					}
				}
			}
		}
	}
	scan(fr.fn, fr.fn.Blocks, lp.blocks)
	if unknown {
		u.HavocAll++
		// everything reachable from the values of this activation may change
		rc := map[int]bool{}
		rr := map[string]bool{}
		rm := map[int]bool{}
		for _, v := range fr.regs {
			u.reach(st, v, rc, rr, rm, 0)
		}
		for id := range rc {
			c := u.cellByID[id]
			if c == nil || strings.HasPrefix(c.Name, "g:") {
				continue // package-level variables are covered by A-GLOBALS / frame obligations
			}
			delete(st.cells, id)
			st.symCells[id] = true
		}
		for k := range rr {
			r := st.regions[k]
			if r == nil || r.Virt {
				continue
			}
			nr := *r
			nr.C = u.newArr("Ch")
			st.regions[k] = &nr
			for _, e := range st.edges[k] {
				if q := st.regions[e.Other]; q != nil && !rr[e.Other] {
					nq := *q
					nq.C = u.newArr("Ch")
					st.regions[e.Other] = &nq
				}
			}
		}
		for id := range rm {
			if ms := st.maps[id]; ms == nil || ms.Global == "" {
				st.maps[id] = &MapState{Opaque: true}
			}
		}
	} else {
		for c := range cells {
			delete(st.cells, c.ID)
			st.symCells[c.ID] = true
		}
	}
}

// CountLoops reports the number of natural loops of fn (incl. closures).
func CountLoops(fn *ssa.Function) int {
	u := &Unit{loops: map[*ssa.Function]*loopInfo{}}
	n := 0
	if li := u.loopsOf(fn); li != nil {
		n += len(li.list)
	}
	for _, a := range fn.AnonFuncs {
		n += CountLoops(a)
	}
	return n
}

// reach collects the cells, byte regions and maps reachable from v.
func (u *Unit) reach(st *State, v Val, cells map[int]bool, regs map[string]bool, maps map[int]bool, depth int) {
	if depth > 12 {
		return
	}
	switch x := v.(type) {
	case SliceV:
		if x.List == nil {
			key := x.Blk.S
			if c, ok := st.canon[key]; ok {
				key = c
			}
			if _, ok := st.regions[key]; ok {
				regs[key] = true
			} else if !(x.Blk.IsInt) {
				// unknown block: may be any region
				for _, k := range st.order {
					regs[k] = true
				}
			}
			return
		}
		for key, c := range u.cellIdx {
			if strings.HasPrefix(key, fmt.Sprintf("list%d[", x.List.ID)) && !cells[c.ID] {
				cells[c.ID] = true
				if cv, ok := st.cells[c.ID]; ok {
					u.reach(st, cv, cells, regs, maps, depth+1)
				}
			}
		}
	case PtrV:
		if x.Blk != nil {
			key := x.Blk.S
			if c, ok := st.canon[key]; ok {
				key = c
			}
			regs[key] = true
			return
		}
		if x.Cell != nil && !cells[x.Cell.ID] {
			cells[x.Cell.ID] = true
			if cv, ok := st.cells[x.Cell.ID]; ok {
				u.reach(st, cv, cells, regs, maps, depth+1)
			}
		}
	case ArrRefV:
		regs[x.Blk.S] = true
	case StructV:
		for _, e := range x.F {
			u.reach(st, e, cells, regs, maps, depth+1)
		}
	case TupleV:
		for _, e := range x.E {
			u.reach(st, e, cells, regs, maps, depth+1)
		}
	case ArrTupleV:
		for _, e := range x.E {
			u.reach(st, e, cells, regs, maps, depth+1)
		}
	case IfaceV:
		if x.Dyn != nil {
			u.reach(st, x.V, cells, regs, maps, depth+1)
		}
	case FuncV:
		for _, e := range x.Bind {
			u.reach(st, e, cells, regs, maps, depth+1)
		}
	case MapV:
		maps[x.ID] = true
		if ms := st.maps[x.ID]; ms != nil {
			for _, e := range ms.Entries {
				u.reach(st, e.K, cells, regs, maps, depth+1)
				u.reach(st, e.V, cells, regs, maps, depth+1)
			}
		}
	}
}

// appendDerived: v is ph itself, append(x, ...) with x append-derived, or a phi
// of append-derived values.
func appendDerived(v ssa.Value, ph *ssa.Phi, depth int) bool {
	if depth > 6 {
		return false
	}
	if v == ssa.Value(ph) {
		return true
	}
	switch x := v.(type) {
	case *ssa.Call:
		b, ok := x.Call.Value.(*ssa.Builtin)
		return ok && b.Name() == "append" && appendDerived(x.Call.Args[0], ph, depth+1)
	case *ssa.Phi:
		for _, e := range x.Edges {
			if !appendDerived(e, ph, depth+1) {
				return false
			}
		}
		return true
	}
	return false
}
