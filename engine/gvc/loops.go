package gvc

import (
	"fmt"
	"sort"

	"golang.org/x/tools/go/ssa"
)

type loop struct {
	header  *ssa.BasicBlock
	blocks  map[*ssa.BasicBlock]bool
	ordinal int
}

type loopInfo struct {
	byHeader map[*ssa.BasicBlock]*loop
	list     []*loop
}

func (u *Unit) loopsOf(fn *ssa.Function) *loopInfo {
	if li, ok := u.loops[fn]; ok {
		return li
	}
	li := &loopInfo{byHeader: map[*ssa.BasicBlock]*loop{}}
	for _, b := range fn.Blocks {
		for _, s := range b.Succs {
			if s.Dominates(b) {
				lp := li.byHeader[s]
				if lp == nil {
					lp = &loop{header: s, blocks: map[*ssa.BasicBlock]bool{s: true}}
					li.byHeader[s] = lp
					li.list = append(li.list, lp)
				}
				// natural loop of back edge b->s
				stack := []*ssa.BasicBlock{b}
				for len(stack) > 0 {
					x := stack[len(stack)-1]
					stack = stack[:len(stack)-1]
					if lp.blocks[x] {
						continue
					}
					lp.blocks[x] = true
					stack = append(stack, x.Preds...)
				}
			}
		}
	}
	sort.Slice(li.list, func(i, j int) bool { return li.list[i].header.Index < li.list[j].header.Index })
	for i, lp := range li.list {
		lp.ordinal = i
	}
	if len(li.list) == 0 {
		li = nil
	}
	u.loops[fn] = li
	return li
}

// LoopSpec is the annotation of one loop.
type LoopSpec struct {
	Mode string // unroll | bounded | invariant
	N    int
	Inv  []string
}

func (u *Unit) loopSpec(fn *ssa.Function, ord int) *LoopSpec {
	if u.P == nil {
		return nil
	}
	if fn.Pkg == nil {
		return nil
	}
	sf := u.P.Specs[fn.Pkg.Pkg.Path()]
	if sf == nil {
		return nil
	}
	return sf.Loops[fmt.Sprintf("%s#%d", shortFuncName(fn), ord)]
}

// atLoopHeader implements the unrolling modes.  Returns true when the path
// ends here.
func (u *Unit) atLoopHeader(st *State, fr *Frame, lp *loop, b, pred *ssa.BasicBlock, k Kont) bool {
	key := fmt.Sprintf("%d:%d", fr.id, b.Index)
	if pred == nil || !lp.blocks[pred] {
		st.visits[key] = 0
		return false
	}
	spec := u.loopSpec(fr.fn, lp.ordinal)
	n := u.Cfg.MaxUnroll
	mode := "bounded"
	if spec != nil && (spec.Mode == "unroll" || spec.Mode == "bounded") {
		n, mode = spec.N, spec.Mode
	}
	c := st.visits[key] + 1
	st.visits[key] = c
	if c <= n {
		return false
	}
	name := fmt.Sprintf("%s#unwind:loop %d", FuncName(fr.fn), lp.ordinal)
	if mode == "unroll" {
		// complete unrolling claimed: iteration n+1 must be unreachable
		u.check(st, name, "unwind", TFalse, fmt.Sprintf("loop %d needs at most %d iterations", lp.ordinal, n))
		return true
	}
	// bounded: assume exit, record
	tag := fmt.Sprintf("%s loop %d bounded %d", FuncName(fr.fn), lp.ordinal, n)
	found := false
	for _, x := range u.Bounded {
		if x == tag {
			found = true
		}
	}
	if !found {
		u.Bounded = append(u.Bounded, tag)
	}
	return true
}
