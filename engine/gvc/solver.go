package gvc

import (
	"regexp"
	"bufio"
	"fmt"
	"io"
	"os"
	"os/exec"
	"strings"
	"sync"
	"time"
)

// cmdEntry is one command of the mirrored assertion stack.
type cmdEntry struct {
	z3   string // text for z3 (may contain lambda)
	cvc5 string // text for cvc5 ("" = same as z3)
	// deferred: a quantified hypothesis.  It is kept out of the incremental
	// solver (whose feasibility answers must stay decidable) and added only
	// when an obligation is checked.
	deferred bool
}

// Solver drives one incremental z3 process and mirrors its assertion stack so
// that (a) it can be restarted after a wedge and (b) every obligation can be
// written out as a standalone SMT-LIB file for the portfolio.
type Solver struct {
	bin     string
	cmd     *exec.Cmd
	in      io.WriteCloser
	out     *bufio.Reader
	stack   [][]cmdEntry
	timeout int // ms per check-sat
	curTimeout int
	ndeferred int
	decls   []string // declarations are global (never popped)
	scopes  []int
	nscope  int
	Checks  int
	Time    time.Duration
	dead    bool
	mu      sync.Mutex
	Errors  []string
}

const solverPrelude = "(set-option :print-success false)\n(set-option :produce-models true)\n(set-option :global-declarations true)\n"

func NewSolver(bin string, timeoutMs int) *Solver {
	s := &Solver{bin: bin, timeout: timeoutMs}
	s.stack = [][]cmdEntry{{}}
	s.start()
	return s
}

func (s *Solver) start() {
	s.cmd = exec.Command(s.bin, "-in", "-smt2")
	in, _ := s.cmd.StdinPipe()
	out, _ := s.cmd.StdoutPipe()
	s.cmd.Stderr = os.Stderr
	if err := s.cmd.Start(); err != nil {
		panic(fmt.Sprintf("cannot start solver %s: %v", s.bin, err))
	}
	s.in = in
	s.out = bufio.NewReaderSize(out, 1<<20)
	s.dead = false
	io.WriteString(s.in, solverPrelude)
	fmt.Fprintf(s.in, "(set-option :timeout %d)\n", s.timeout)
	s.curTimeout = s.timeout
}

func (s *Solver) restart() {
	s.Close()
	s.start()
	for _, d := range s.decls {
		io.WriteString(s.in, d)
		io.WriteString(s.in, "\n")
	}
	for i, fr := range s.stack {
		if i > 0 {
			io.WriteString(s.in, "(push 1)\n")
		}
		for _, c := range fr {
			if c.deferred {
				continue
			}
			io.WriteString(s.in, c.z3)
			io.WriteString(s.in, "\n")
		}
	}
}

func (s *Solver) Close() {
	if s.cmd != nil && s.cmd.Process != nil {
		s.in.Close()
		s.cmd.Process.Kill()
		s.cmd.Wait()
	}
	s.cmd = nil
}

func (s *Solver) raw(c cmdEntry) {
	top := len(s.stack) - 1
	s.stack[top] = append(s.stack[top], c)
	io.WriteString(s.in, c.z3)
	io.WriteString(s.in, "\n")
}

func (s *Solver) Declare(name string, sort Sort) {
	c := fmt.Sprintf("(declare-const %s %s)", name, sort)
	s.decls = append(s.decls, c)
	io.WriteString(s.in, c)
	io.WriteString(s.in, "\n")
}

func (s *Solver) DeclareFun(name string, args []Sort, res Sort) {
	var as []string
	for _, a := range args {
		as = append(as, a.String())
	}
	c := fmt.Sprintf("(declare-fun %s (%s) %s)", name, strings.Join(as, " "), res)
	s.decls = append(s.decls, c)
	io.WriteString(s.in, c)
	io.WriteString(s.in, "\n")
}

func (s *Solver) Assert(t *Term) {
	if t.IsBool && t.B {
		return
	}
	if strings.Contains(t.S, "(forall ") || strings.Contains(t.S, "(exists ") {
		top := len(s.stack) - 1
		s.stack[top] = append(s.stack[top], cmdEntry{z3: "(assert " + t.S + ")", deferred: true})
		s.ndeferred++
		return
	}
	s.raw(cmdEntry{z3: "(assert " + t.S + ")"})
}

// assertNow sends a (possibly quantified) assertion to the solver process.
func (s *Solver) assertNow(t *Term) {
	s.raw(cmdEntry{z3: "(assert " + t.S + ")"})
}

// DefineArr introduces name == (lambda ((v Int)) body) of sort (Array Int Int).
func (s *Solver) DefineArr(name, v string, body *Term) {
	s.raw(cmdEntry{z3: fmt.Sprintf("(declare-const %s (Array Int Int))", name)})
	s.raw(cmdEntry{
		z3:   fmt.Sprintf("(assert (= %s (lambda ((%s Int)) %s)))", name, v, body.S),
		cvc5: fmt.Sprintf("(assert (forall ((%s Int)) (! (= (select %s %s) %s) :pattern ((select %s %s)))))", v, name, v, body.S, name, v),
	})
}

// ScopeID identifies the innermost open scope; Alive tells whether a scope is
// still open (facts asserted in it are still asserted).
func (s *Solver) ScopeID() int {
	if len(s.scopes) == 0 {
		return 0
	}
	return s.scopes[len(s.scopes)-1]
}

func (s *Solver) Alive(id int) bool {
	if id == 0 {
		return true
	}
	for _, x := range s.scopes {
		if x == id {
			return true
		}
	}
	return false
}

func (s *Solver) Push() {
	s.nscope++
	s.scopes = append(s.scopes, s.nscope)
	s.stack = append(s.stack, nil)
	io.WriteString(s.in, "(push 1)\n")
}

func (s *Solver) Pop() {
	s.scopes = s.scopes[:len(s.scopes)-1]
	s.stack = s.stack[:len(s.stack)-1]
	io.WriteString(s.in, "(pop 1)\n")
}

func (s *Solver) Depth() int { return len(s.stack) }

const marker = "<<gvc-done>>"

// readUntilMarker collects output lines up to the echo marker, with a watchdog.
func (s *Solver) readUntilMarker(limit time.Duration) ([]string, bool) {
	type res struct {
		lines []string
		ok    bool
	}
	ch := make(chan res, 1)
	out := s.out
	go func() {
		var lines []string
		for {
			l, err := out.ReadString('\n')
			if err != nil {
				ch <- res{lines, false}
				return
			}
			l = strings.TrimRight(l, "\r\n")
			if strings.Contains(l, marker) {
				ch <- res{lines, true}
				return
			}
			lines = append(lines, l)
		}
	}()
	select {
	case r := <-ch:
		return r.lines, r.ok
	case <-time.After(limit):
		return nil, false
	}
}

// CheckSat returns "sat", "unsat" or "unknown" for the current stack.
func (s *Solver) CheckSat() string { return s.CheckSatT(s.timeout) }

// CheckSatT: check-sat with an explicit time limit in milliseconds.
func (s *Solver) CheckSatT(ms int) string {
	if ms != s.curTimeout {
		fmt.Fprintf(s.in, "(set-option :timeout %d)\n", ms)
		s.curTimeout = ms
	}
	t0 := time.Now()
	defer func() {
		s.Checks++
		d := time.Since(t0)
		s.Time += d
		if d > 250*time.Millisecond && os.Getenv("GVC_SLOW") != "" {
			top := s.stack[len(s.stack)-1]
			last := ""
			if len(top) > 0 {
				last = top[len(top)-1].z3
			}
			fmt.Fprintf(os.Stderr, "slow check %.1fs depth=%d last=%s\n", d.Seconds(), len(s.stack), last)
			if f := os.Getenv("GVC_SLOW_DUMP"); f != "" {
				os.WriteFile(f, []byte(s.Script(nil, "z3")), 0o644)
			}
		}
	}()
	fmt.Fprintf(s.in, "(check-sat)\n(echo \"%s\")\n", marker)
	lines, ok := s.readUntilMarker(time.Duration(ms)*time.Millisecond + 8*time.Second)
	if !ok {
		s.restart()
		return "unknown"
	}
	res := "unknown"
	for _, l := range lines {
		switch l {
		case "sat", "unsat", "unknown":
			res = l
		default:
			if strings.HasPrefix(l, "(error") {
				if strings.Contains(l, "canceled") {
					// the soft timeout hit in the middle of a command: the
					// process state is unreliable, rebuild it from the mirror
					s.restart()
					return "unknown"
				}
				s.Errors = append(s.Errors, l)
				if len(s.Errors) < 5 {
					fmt.Fprintln(os.Stderr, "solver error:", l)
				}
			}
		}
	}
	return res
}

// CheckGoal: is `goal` valid under the current stack?  Returns "unsat" when
// proved, "sat" with model values for the requested terms, or "unknown".
func (s *Solver) CheckGoal(goal *Term, want []string) (string, map[string]string) {
	return s.CheckGoalT(goal, want, s.timeout)
}

// CheckGoalQF: like CheckGoalT but without the quantified hypotheses (sound:
// fewer hypotheses); most safety / arithmetic obligations are decided here.
func (s *Solver) CheckGoalQF(goal *Term, ms int) string {
	s.Push()
	s.assertNow(Not(goal))
	r := s.CheckSatT(ms)
	s.Pop()
	return r
}

// HasDeferred: are there quantified hypotheses on the stack?
func (s *Solver) HasDeferred() bool {
	for _, fr := range s.stack {
		for _, c := range fr {
			if c.deferred {
				return true
			}
		}
	}
	return false
}

func (s *Solver) CheckGoalT(goal *Term, want []string, ms int) (string, map[string]string) {
	s.Push()
	// quantified hypotheses take part in obligation checks only
	if s.ndeferred > 0 {
		for _, fr := range s.stack[:len(s.stack)-1] {
			for _, c := range fr {
				if c.deferred {
					io.WriteString(s.in, c.z3)
					io.WriteString(s.in, "\n")
				}
			}
		}
	}
	s.assertNow(Not(goal))
	r := s.CheckSatT(ms)
	var m map[string]string
	if r == "sat" && len(want) > 0 {
		m = s.GetValues(want)
	}
	s.Pop()
	return r, m
}

// GetValues evaluates terms in the current model (after a sat answer).
func (s *Solver) GetValues(terms []string) map[string]string {
	m := map[string]string{}
	for _, t := range terms {
		fmt.Fprintf(s.in, "(get-value (%s))\n(echo \"%s\")\n", t, marker)
		lines, ok := s.readUntilMarker(10 * time.Second)
		if !ok {
			s.restart()
			return m
		}
		txt := strings.TrimSpace(strings.Join(lines, " "))
		if strings.HasPrefix(txt, "(error") || txt == "" {
			continue
		}
		// txt = ((term value))
		txt = strings.TrimSpace(txt)
		if strings.HasPrefix(txt, "((") && strings.HasSuffix(txt, "))") {
			inner := txt[2 : len(txt)-2]
			// strip the echoed term: value is what follows the term text
			if strings.HasPrefix(inner, t) {
				m[t] = strings.TrimSpace(inner[len(t):])
			} else {
				// term may be re-printed differently; take the last s-expr
				m[t] = lastSexp(inner)
			}
		}
	}
	return m
}

func lastSexp(s string) string {
	s = strings.TrimSpace(s)
	if s == "" {
		return s
	}
	if s[len(s)-1] != ')' {
		i := strings.LastIndexAny(s, " \t")
		return s[i+1:]
	}
	depth := 0
	for i := len(s) - 1; i >= 0; i-- {
		switch s[i] {
		case ')':
			depth++
		case '(':
			depth--
			if depth == 0 {
				return s[i:]
			}
		}
	}
	return s
}

// Script renders the current stack plus a negated goal as a standalone query.
func (s *Solver) Script(goal *Term, dialect string) string {
	var sb strings.Builder
	if dialect == "cvc5" {
		sb.WriteString("(set-option :produce-models true)\n(set-logic ALL)\n")
	} else {
		sb.WriteString("(set-option :produce-models true)\n")
	}
	// declarations are global in the solver process; a standalone script only
	// needs those its assertions mention
	var body strings.Builder
	defer func() {}()
	for _, fr := range s.stack {
		for _, c := range fr {
			if c.deferred && goal == nil {
				continue
			}
			if dialect == "cvc5" && c.cvc5 != "" {
				body.WriteString(c.cvc5)
			} else {
				body.WriteString(c.z3)
			}
			body.WriteByte('\n')
		}
	}
	if goal != nil {
		body.WriteString("(assert (not " + goal.S + "))\n")
	}
	used := map[string]bool{}
	for _, id := range scriptIdentRe.FindAllString(body.String(), -1) {
		used[id] = true
	}
	for _, d := range s.decls {
		// "(declare-const NAME SORT)" / "(declare-fun NAME ..."
		f := strings.Fields(d)
		if len(f) >= 2 && used[f[1]] {
			sb.WriteString(d)
			sb.WriteByte('\n')
		}
	}
	sb.WriteString(body.String())
	sb.WriteString("(check-sat)\n")
	return sb.String()
}

var scriptIdentRe = regexp.MustCompile(`[A-Za-z_][A-Za-z0-9_.]*![0-9]+`)

func (s *Solver) scriptOld(goal *Term, dialect string) string {
	var sb strings.Builder
	for _, fr := range s.stack {
		for _, c := range fr {
			if c.deferred && goal == nil {
				continue // feasibility queries are quantifier-free
			}
			if dialect == "cvc5" && c.cvc5 != "" {
				sb.WriteString(c.cvc5)
			} else {
				sb.WriteString(c.z3)
			}
			sb.WriteByte('\n')
		}
	}
	if goal != nil {
		sb.WriteString("(assert (not " + goal.S + "))\n")
	}
	sb.WriteString("(check-sat)\n")
	return sb.String()
}

// RunScript runs a standalone script with the given solver binary.
func RunScript(bin string, script string, timeout time.Duration) (string, time.Duration) {
	f, err := os.CreateTemp("", "gvc-*.smt2")
	if err != nil {
		return "unknown", 0
	}
	defer os.Remove(f.Name())
	f.WriteString(script)
	f.Close()
	t0 := time.Now()
	var cmd *exec.Cmd
	switch {
	case strings.Contains(bin, "cvc5"):
		cmd = exec.Command(bin, fmt.Sprintf("--tlimit=%d", timeout.Milliseconds()), f.Name())
	default:
		cmd = exec.Command(bin, fmt.Sprintf("-T:%d", int(timeout.Seconds())+1), f.Name())
	}
	out, _ := cmd.Output()
	d := time.Since(t0)
	first := strings.TrimSpace(strings.SplitN(string(out), "\n", 2)[0])
	if d > 500*time.Millisecond && os.Getenv("GVC_SLOW") != "" {
		fmt.Fprintf(os.Stderr, "slow standalone %.1fs -> %s (%d bytes)\n", d.Seconds(), first, len(script))
		if f := os.Getenv("GVC_SLOW_DUMP"); f != "" {
			os.WriteFile(f, []byte(script), 0o644)
		}
	}
	switch first {
	case "sat", "unsat":
		return first, d
	}
	return "unknown", d
}
