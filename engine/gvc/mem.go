package gvc

import (
	"math/big"
	"os"
	"runtime/debug"
	"fmt"
	"go/types"
	"strings"
)

var zeroArr = ConstArr(IntLit(0))

// ---------------------------------------------------------------- regions

func (u *Unit) addRegion(st *State, r *Region) {
	st.regions[r.Blk.S] = r
	st.order = append(st.order, r.Blk.S)
}

// allocID returns the block id of the next allocation on this path.
func (u *Unit) allocID(st *State) *Term {
	id := Add(st.wm, IntLit(int64(st.nalloc)))
	st.nalloc++
	return id
}

// bumpWatermark is called after a contract call: the callee may have allocated.
func (u *Unit) bumpWatermark(st *State) {
	nw := u.newInt("wm")
	u.assume(Ge(nw, Add(st.wm, IntLit(int64(st.nalloc)))))
	st.wm = nw
	st.nalloc = 0
}

// allocBytes creates a fresh zeroed byte region.
func (u *Unit) allocBytes(st *State) *Region {
	r := &Region{Blk: u.allocID(st), C: zeroArr, Fresh: true}
	u.addRegion(st, r)
	return r
}

// inputRegion creates a region that exists before the function is entered.
func (u *Unit) inputRegion(st *State, prefix string) *Region {
	blk := u.newInt("in_" + prefix)
	u.assume(And(Lt(IntLit(0), blk), Lt(blk, u.alloc0)))
	for _, k := range st.order {
		q := st.regions[k]
		if q.Input {
			u.assume(Neq(blk, q.Blk))
		}
	}
	r := &Region{Blk: blk, C: u.newArr("C_" + prefix), Input: true}
	u.addRegion(st, r)
	return r
}

// virtRegion creates a ghost sequence (result of a spec function such as cat).
func (u *Unit) virtRegion(st *State, c *Term) *Region {
	blk := u.newInt("vb")
	r := &Region{Blk: blk, C: c, Virt: true, Fresh: true}
	u.addRegion(st, r)
	return r
}

// regionOf resolves the region a block term denotes.  An unknown block (result
// of a contract call) gets its own contents array, tied to every existing
// region it may coincide with.
func (u *Unit) regionOf(st *State, blk *Term) *Region {
	if blk.BlkOf != nil {
		blk = blk.BlkOf
	}
	if c, ok := st.canon[blk.S]; ok {
		return st.regions[c]
	}
	if r := st.regions[blk.S]; r != nil {
		return r
	}
	// contents: whatever region the block coincides with, else unknown memory
	c := u.newArr("Cu")
	r := &Region{Blk: blk, Base: c}
	siblings := false
	type alt struct {
		cond *Term
		c    *Term
	}
	var alts []alt
	cands := st.order
	if bm, ok := u.blkInfo[blk.S]; ok && u.specMode >= 0 {
		// a slice returned by a contract call: allocated by the callee (fresh)
		// or pointing into a region that existed before the call
		if u.provable(Or(Eq(blk, IntLit(0)), Ge(blk, bm.base))) {
			// allocated by the callee: it can only coincide with other blocks
			// returned by the same call
			var sib []string
			for _, k := range st.order {
				if om, ok := u.blkInfo[k]; ok && om.base.S == bm.base.S && k != blk.S {
					sib = append(sib, k)
				}
			}
			r.Fresh = u.provable(Or(Eq(blk, IntLit(0)), Ge(blk, u.alloc0)))
			cands = sib
			siblings = true
			goto build
		}
		if bm.epoch < len(cands) {
			cands = cands[:bm.epoch]
		}
	}
build:
	for _, k := range cands {
		q := st.regions[k]
		if q == nil || q.Virt {
			continue
		}
		cond := Eq(blk, q.Blk)
		if cond.IsBool && !cond.B {
			continue
		}
		if _, tracked := u.blkInfo[blk.S]; tracked && (u.Cfg.RegionHints || siblings) {
			if u.provable(cond) {
				st.canon[blk.S] = k
				return q
			}
			if u.provable(Not(cond)) {
				continue
			}
		}
		if siblings && q.Base != nil && !q.Written {
			alts = append(alts, alt{cond, q.Base})
		} else {
			alts = append(alts, alt{cond, q.C})
		}
		st.edges[blk.S] = append(st.edges[blk.S], Edge{Other: k, Cond: cond})
		st.edges[k] = append(st.edges[k], Edge{Other: blk.S, Cond: cond})
	}
	if os.Getenv("GVC_DEBUG_REGIONS") != "" {
		_, tracked := u.blkInfo[blk.S]
		fmt.Fprintf(os.Stderr, "regionOf(%s): tracked=%v alts=%d specMode=%d\n", blk.S, tracked, len(alts), u.specMode)
		if tracked && len(alts) > 0 && os.Getenv("GVC_DEBUG_REGIONS") == "2" {
			fmt.Fprintf(os.Stderr, "%s\n", debug.Stack())
		}
	}
	if len(alts) == 0 {
		r.C = c
	} else {
		r.C = u.mkArr(func(i *Term) *Term {
			v := Select(c, i)
			for j := len(alts) - 1; j >= 0; j-- {
				v = Ite(alts[j].cond, Select(alts[j].c, i), v)
			}
			return v
		})
	}
	u.addRegion(st, r)
	return r
}

// escape marks the blocks of the byte slices in v as possibly aliased.
func (u *Unit) escape(st *State, v Val) {
	switch x := v.(type) {
	case SliceV:
		if x.List != nil {
			return
		}
		key := x.Blk.S
		if x.Blk.BlkOf != nil {
			key = x.Blk.BlkOf.S
		}
		if c, ok := st.canon[key]; ok {
			key = c
		}
		if r := st.regions[key]; r != nil && !r.Escaped {
			n := *r
			n.Escaped = true
			st.regions[key] = &n
		}
	case StructV:
		for _, e := range x.F {
			u.escape(st, e)
		}
	case TupleV:
		for _, e := range x.E {
			u.escape(st, e)
		}
	case ArrTupleV:
		for _, e := range x.E {
			u.escape(st, e)
		}
	case IfaceV:
		if x.Dyn != nil {
			u.escape(st, x.V)
		}
	}
}

func (u *Unit) setContents(st *State, key string, c *Term) {
	if ck, ok := st.canon[key]; ok {
		key = ck
	}
	old := st.regions[key]
	n := *old
	n.C = c
	n.Written = true
	st.regions[key] = &n
}

// writeBytes performs a strong update of [lo, lo+n) (absolute offsets) of the
// region blk; src gives the new value at absolute index j.
func (u *Unit) writeBytes(st *State, fn string, blk *Term, lo, n *Term, src func(j *Term) *Term, what string) {
	if u.specMode == 0 {
		u.StoresSeen++
	}
	r := u.regionOf(st, blk)
	if !r.Fresh {
		u.frameWrite(st, r, what)
	}
	lo = u.name(lo, "lo")
	hi := u.name(Add(lo, n), "hi")
	oldC := r.C
	in := func(j *Term) *Term { return And(Le(lo, j), Lt(j, hi)) }
	u.setContents(st, r.Blk.S, u.mkArr(func(j *Term) *Term { return Ite(in(j), src(j), Select(oldC, j)) }))
	for _, e := range st.edges[r.Blk.S] {
		q := st.regions[e.Other]
		if q == nil {
			continue
		}
		if !q.Fresh {
			u.frameWriteCond(st, q, e.Cond, what)
		}
		qC, cond := q.C, e.Cond
		u.setContents(st, e.Other, u.mkArr(func(j *Term) *Term { return Ite(And(cond, in(j)), src(j), Select(qC, j)) }))
	}
}

// frameWrite: a store into memory that existed before the call.
func (u *Unit) frameWrite(st *State, r *Region, what string) {
	st.written = true
	if !u.Cfg.FrameCheck || u.specMode > 0 {
		return
	}
	fn := u.curFn[len(u.curFn)-1]
	goal := Ge(r.Blk, u.alloc0)
	if r.Input {
		goal = TFalse
	}
	u.check(st, u.oblName(fn, "frame", what), "frame", goal, "store into memory that existed before the call: "+what)
}

func (u *Unit) frameWriteCond(st *State, r *Region, cond *Term, what string) {
	if !u.Cfg.FrameCheck || u.specMode > 0 {
		return
	}
	fn := u.curFn[len(u.curFn)-1]
	var goal *Term
	if r.Input {
		goal = Not(cond)
	} else {
		goal = Implies(cond, Ge(r.Blk, u.alloc0))
	}
	u.check(st, u.oblName(fn, "frame", what), "frame", goal, "store into memory that existed before the call (aliased): "+what)
}

// elem returns byte i (relative) of a byte slice.
func (u *Unit) sliceByte(st *State, s SliceV, i *Term) *Term {
	r := u.regionOf(st, s.Blk)
	return Select(r.C, Add(s.Off, i))
}

// ---------------------------------------------------------------- cells

func (u *Unit) newCell(t types.Type, sym, old bool, name string) *Cell {
	u.ncell++
	c := &Cell{ID: u.ncell, T: t, Sym: sym, Old: old, Name: name}
	u.cellByID[c.ID] = c
	return c
}

func (u *Unit) keyedCell(key string, t types.Type, sym, old bool) *Cell {
	if c := u.cellIdx[key]; c != nil {
		return c
	}
	c := u.newCell(t, sym, old, key)
	u.cellIdx[key] = c
	return c
}

func (u *Unit) listCell(l *ListObj, i int) *Cell {
	return u.keyedCell(fmt.Sprintf("list%d[%d]", l.ID, i), l.Elem, l.Sym, l.Sym && !l.New)
}

func (u *Unit) newList(elem types.Type, sym bool) *ListObj {
	u.nlist++
	return &ListObj{ID: u.nlist, Elem: elem, Sym: sym}
}

func (u *Unit) loadCell(st *State, c *Cell) Val {
	if v, ok := st.cells[c.ID]; ok {
		return v
	}
	var v Val
	if c.Sym && strings.HasPrefix(c.Name, "g:") && types.Identical(c.T, types.Universe.Lookup("error").Type()) {
		// package-level error value of a dependency: non-nil (A-GLOBALS)
		id := u.newInt("deperr")
		u.assume(Lt(id, IntLit(0)))
		v = IfaceV{Nil: TFalse, Opq: id}
		st.cells[c.ID] = v
		return v
	}
	if c.Sym && strings.HasPrefix(c.Name, "list") && types.Identical(c.T, types.Universe.Lookup("error").Type()) {
		// A-ERRLIST: the elements of an []error a function returns are non-nil
		u.Assumed["A-ERRLIST: the elements of a returned []error are non-nil errors"]++
		v = IfaceV{Nil: TFalse, Opq: u.newInt(c.Name + "_if")}
		st.cells[c.ID] = v
		return v
	}
	if c.Sym || st.symCells[c.ID] {
		v = u.freshVal(st, c.T, c.Name, c.Old && c.Sym)
		if strings.HasPrefix(c.Name, "list") && u.P != nil && len(u.P.ElemInv) > 0 && u.binder == 0 {
			if inv := u.P.ElemInv[types.TypeString(c.T, nil)]; inv != nil {
				// data-structure invariant of list elements that come from
				// outside the unit (inputs, results of contract calls)
				st.cells[c.ID] = v
				u.Assumed["A-ELEM: elements of lists of type []"+types.TypeString(c.T, nil)+" obtained from inputs or contract calls satisfy "+inv.Name()]++
				u.assume(u.evalPure(st, inv, []Val{v}, nil).(*Term))
			}
		}
	} else {
		v = u.zeroVal(c.T)
	}
	st.cells[c.ID] = v
	return v
}

func (u *Unit) storeCell(st *State, c *Cell, v Val) {
	if u.specMode == 0 {
		u.StoresSeen++
	}
	if l := u.symIdxCells[c.ID]; l != nil && u.specMode == 0 {
		// store through a symbolic list position: every element may be the target
		for key, oc := range u.cellIdx {
			if strings.HasPrefix(key, fmt.Sprintf("list%d[", l.ID)) && oc != c {
				delete(st.cells, oc.ID)
				st.symCells[oc.ID] = true
			}
		}
	}
	if c.Old || (c.ID <= u.initCells && !u.inInit) {
		st.written = true
		if u.Cfg.FrameCheck && u.specMode == 0 {
			fn := u.curFn[len(u.curFn)-1]
			u.check(st, u.oblName(fn, "frame", "store to "+c.Name), "frame", TFalse, "store into a variable that existed before the call")
		}
	}
	st.cells[c.ID] = v
}

// loadPath loads the value a (non-byte) pointer designates.
func (u *Unit) loadPath(st *State, p PtrV) Val {
	v := u.loadCell(st, p.Cell)
	for _, i := range p.Path {
		v = u.project(st, v, i)
	}
	return u.snapshot(st, v)
}

// snapshot turns array references into array values (value semantics of a load).
func (u *Unit) snapshot(st *State, v Val) Val {
	switch x := v.(type) {
	case ArrRefV:
		return ArrV{Arr: u.regionOf(st, x.Blk).C, N: x.N}
	case StructV:
		changed := false
		nf := make([]Val, len(x.F))
		for i, f := range x.F {
			nf[i] = u.snapshot(st, f)
			if _, ok := f.(ArrRefV); ok {
				changed = true
			}
			if _, ok := f.(StructV); ok {
				changed = true
			}
		}
		if !changed {
			return x
		}
		return StructV{F: nf, T: x.T}
	}
	return v
}

func (u *Unit) project(st *State, v Val, i int) Val {
	switch x := v.(type) {
	case StructV:
		return x.F[i]
	case ArrTupleV:
		return x.E[i]
	case TupleV:
		return x.E[i]
	}
	panic(fmt.Sprintf("project %T", v))
}

func (u *Unit) updatePath(st *State, v Val, path []int, nv Val) Val {
	if len(path) == 0 {
		// storing a whole byte array into a promoted array: write the region
		if ref, ok := v.(ArrRefV); ok {
			if a, ok2 := nv.(ArrV); ok2 {
				r := u.regionOf(st, ref.Blk)
				_ = r
				u.setContents(st, ref.Blk.S, a.Arr)
				return ref
			}
		}
		return nv
	}
	switch x := v.(type) {
	case StructV:
		nf := append([]Val(nil), x.F...)
		nf[path[0]] = u.updatePath(st, x.F[path[0]], path[1:], nv)
		return StructV{F: nf, T: x.T}
	case ArrTupleV:
		ne := append([]Val(nil), x.E...)
		ne[path[0]] = u.updatePath(st, x.E[path[0]], path[1:], nv)
		return ArrTupleV{E: ne, T: x.T}
	}
	panic(fmt.Sprintf("updatePath %T", v))
}

func (u *Unit) storePath(st *State, p PtrV, nv Val) {
	old := u.loadCell(st, p.Cell)
	u.storeCell(st, p.Cell, u.updatePath(st, old, p.Path, nv))
}

// ---------------------------------------------------------------- values by type

func (u *Unit) zeroVal(t types.Type) Val {
	if isNamed(t, "time", "Time") {
		return TimeV{NS: BigLit(zeroTimeNS)}
	}
	switch x := t.Underlying().(type) {
	case *types.Basic:
		switch {
		case x.Info()&types.IsInteger != 0:
			return IntLit(0)
		case x.Info()&types.IsBoolean != 0:
			return TFalse
		case x.Info()&types.IsString != 0:
			return StrV{Arr: zeroArr, Len: IntLit(0), IsLit: true, Lit: ""}
		case x.Kind() == types.UnsafePointer:
			return PtrV{Nil: TTrue}
		}
		return OpaqueV{ID: IntLit(0), T: t}
	case *types.Slice:
		s := SliceV{Blk: IntLit(0), Off: IntLit(0), Len: IntLit(0), Cap: IntLit(0), Elem: x.Elem()}
		return s
	case *types.Pointer:
		return PtrV{Nil: TTrue, Elem: x.Elem()}
	case *types.Interface:
		return IfaceV{Nil: TTrue}
	case *types.Struct:
		f := make([]Val, x.NumFields())
		for i := range f {
			f[i] = u.zeroVal(x.Field(i).Type())
		}
		return StructV{F: f, T: x}
	case *types.Array:
		if isByte(x.Elem()) {
			return ArrV{Arr: zeroArr, N: x.Len()}
		}
		e := make([]Val, x.Len())
		for i := range e {
			e[i] = u.zeroVal(x.Elem())
		}
		return ArrTupleV{E: e, T: x}
	case *types.Map:
		return MapV{ID: 0}
	case *types.Signature:
		return FuncV{}
	case *types.Tuple:
		e := make([]Val, x.Len())
		for i := range e {
			e[i] = u.zeroVal(x.At(i).Type())
		}
		return TupleV{E: e}
	}
	return OpaqueV{ID: IntLit(0), T: t}
}

// freshVal builds an unconstrained symbolic value of type t.  input=true: the
// value exists at function entry (regions are input regions, cells are old).
func (u *Unit) freshVal(st *State, t types.Type, name string, input bool) Val {
	if isNamed(t, "time", "Time") {
		// A-TIME: instants within 2^62 seconds of the Unix epoch
		ns := u.newInt(name + "_ns")
		lim := new(big.Int).Mul(pow2(62), big.NewInt(1000000000))
		u.assume(And(Le(BigLit(new(big.Int).Neg(lim)), ns), Le(ns, BigLit(lim))))
		if input {
			u.inputs = append(u.inputs, InputLeaf{Name: name, Kind: "int", T: ns, Type: "time.Time(ns)"})
		}
		return TimeV{NS: ns}
	}
	switch x := t.Underlying().(type) {
	case *types.Basic:
		switch {
		case x.Info()&types.IsInteger != 0:
			c := u.newInt(name)
			lo, hi, _, _ := intRange(t)
			u.assume(And(Le(lo, c), Le(c, hi)))
			c = WithBounds(c, lo.I, hi.I)
			if input {
				u.inputs = append(u.inputs, InputLeaf{Name: name, Kind: "int", T: c, Type: typeString(t)})
			}
			return c
		case x.Info()&types.IsBoolean != 0:
			c := u.newBool(name)
			if input {
				u.inputs = append(u.inputs, InputLeaf{Name: name, Kind: "bool", T: c})
			}
			return c
		case x.Info()&types.IsString != 0:
			l := u.newInt(name + "_len")
			u.assume(And(Le(IntLit(0), l), Le(l, BigLit(MaxLen))))
			a := u.newArr(name + "_str")
			if input {
				u.inputs = append(u.inputs, InputLeaf{Name: name, Kind: "str", Len: l, Arr: a})
			}
			return StrV{Arr: a, Len: l}
		}
		return OpaqueV{ID: u.newInt(name), T: t}
	case *types.Slice:
		l := u.newInt(name + "_len")
		cp := u.newInt(name + "_cap")
		u.assume(And(Le(IntLit(0), l), Le(l, cp), Le(cp, BigLit(MaxLen))))
		if !isByte(x.Elem()) {
			lst := u.newList(x.Elem(), true)
			lst.New = !input // result of a call made during execution: not caller-visible state
			blk := u.newInt(name + "_lblk")
			u.assume(Le(IntLit(0), blk))
			u.assume(Implies(Eq(blk, IntLit(0)), Eq(cp, IntLit(0))))
			if input {
				u.inputs = append(u.inputs, InputLeaf{Name: name, Kind: "list", Len: l, Blk: blk, Type: typeString(t)})
			}
			return SliceV{Blk: blk, Off: IntLit(0), Len: l, Cap: cp, Elem: x.Elem(), List: lst}
		}
		off := u.newInt(name + "_off")
		u.assume(And(Le(IntLit(0), off), Le(off, BigLit(MaxLen))))
		var blk *Term
		if input {
			r := u.inputRegion(st, name)
			// a nil input slice: blk is an input id but the slice may be nil
			isnil := u.newBool(name + "_nil")
			u.assume(Implies(isnil, And(Eq(cp, IntLit(0)), Eq(off, IntLit(0)))))
			nb := u.newInt(name + "_blk")
			u.assume(Eq(nb, Ite(isnil, IntLit(0), r.Blk)))
			// register the region under the slice's own block term as well
			st.canon[nb.S] = r.Blk.S
			u.inputArr[nb.S] = r.C
			u.inputArr[r.Blk.S] = r.C
			blk = nb
			u.inputs = append(u.inputs, InputLeaf{Name: name, Kind: "bytes", Len: l, Arr: r.C, Off: off, Cap: cp, Blk: nb, Type: typeString(t)})
		} else {
			blk = u.newInt(name + "_blk")
			u.assume(Le(IntLit(0), blk))
			u.assume(Implies(Eq(blk, IntLit(0)), And(Eq(cp, IntLit(0)), Eq(off, IntLit(0)))))
		}
		return SliceV{Blk: blk, Off: off, Len: l, Cap: cp, Elem: x.Elem()}
	case *types.Pointer:
		n := u.newBool(name + "_isnil")
		c := u.newCell(x.Elem(), true, input, name)
		return PtrV{Nil: n, Cell: c, Elem: x.Elem()}
	case *types.Interface:
		n := u.newBool(name + "_isnil")
		id := u.newInt(name + "_if")
		if input {
			u.ifBound[id.S] = u.alloc0
		}
		return IfaceV{Nil: n, Opq: id}
	case *types.Struct:
		f := make([]Val, x.NumFields())
		for i := range f {
			f[i] = u.freshVal(st, x.Field(i).Type(), name+"."+x.Field(i).Name(), input)
		}
		return StructV{F: f, T: x}
	case *types.Array:
		if isByte(x.Elem()) {
			a := u.newArr(name)
			if input {
				u.inputs = append(u.inputs, InputLeaf{Name: name, Kind: "arr", Len: IntLit(x.Len()), Arr: a, Type: typeString(t)})
			}
			return ArrV{Arr: a, N: x.Len()}
		}
		if x.Len() > 64 {
			return OpaqueV{ID: u.newInt(name), T: t}
		}
		e := make([]Val, x.Len())
		for i := range e {
			e[i] = u.freshVal(st, x.Elem(), fmt.Sprintf("%s_%d", name, i), input)
		}
		return ArrTupleV{E: e, T: x}
	case *types.Map:
		u.nmap++
		return MapV{ID: u.nmap, Opaque: true}
	case *types.Signature:
		return FuncV{}
	case *types.Tuple:
		e := make([]Val, x.Len())
		for i := range e {
			e[i] = u.freshVal(st, x.At(i).Type(), fmt.Sprintf("%s_%d", name, i), input)
		}
		return TupleV{E: e}
	}
	return OpaqueV{ID: u.newInt(name), T: t}
}

// byteRange asserts 0 <= select(arr, i) <= 255 lazily at reads: bytes read from
// any array are constrained at the read site.
func (u *Unit) byteAt(arr, idx *Term) *Term {
	b := u.name(Select(arr, idx), "b")
	return b
}
