package gvc

import (
	"fmt"
	"go/types"
	"math/big"
	"strings"

	"golang.org/x/tools/go/ssa"
)

// evalPure evaluates a loop-free, side-effect free function (a contract
// clause, a spec function, a closure of forall, or a small pure helper of the
// real code) to a single value: blocks are visited in topological order under
// their block conditions and phis become ite terms.  No obligations arise.
func (u *Unit) evalPure(st *State, fn *ssa.Function, args []Val, bind []Val) Val {
	if fn == nil {
		panic("evalPure: nil function (missing clause function?)")
	}
	if fn.Blocks == nil {
		return u.havocResult(st, fn.Signature.Results(), "pure_ext")
	}
	if u.pureDepth > 24 {
		u.limit("pure evaluation too deep at %s", FuncName(fn))
		return u.havocResult(st, fn.Signature.Results(), "pure_deep")
	}
	// spec functions are functions of the deep value of their arguments: the
	// same call yields the same value (and the same ghost arrays), so that
	// facts stated through them connect syntactically
	memoKey := ""
	if fn.Parent() == nil && len(bind) == 0 && u.binder == 0 && u.isSpecFile(fn) && !strings.HasPrefix(fn.Name(), "gvcC_") && !strings.HasPrefix(fn.Name(), "gvcL_") {
		memoKey = "spec:" + fn.String()
		for _, a := range args {
			memoKey += "|" + u.valKey(st, a, 0)
		}
		if v, ok := st.memo[memoKey]; ok {
			return v
		}
	}
	u.specMode++
	u.pureDepth++
	defer func() { u.specMode--; u.pureDepth-- }()
	u.nframe++
	fr := &Frame{id: u.nframe, fn: fn, regs: map[ssa.Value]Val{}}
	for i, p := range fn.Params {
		fr.regs[p] = args[i]
	}
	for i, fv := range fn.FreeVars {
		fr.regs[fv] = bind[i]
	}
	u.curFn = append(u.curFn, fn)
	defer func() { u.curFn = u.curFn[:len(u.curFn)-1] }()

	order := rpo(fn)
	bcond := map[*ssa.BasicBlock]*Term{fn.Blocks[0]: TTrue}
	econd := map[[2]int]*Term{}
	type ret struct {
		c *Term
		v Val
	}
	var rets []ret
	for _, b := range order {
		c := bcond[b]
		if c == nil {
			var ins []*Term
			for _, p := range b.Preds {
				if ec, ok := econd[[2]int{p.Index, b.Index}]; ok {
					ins = append(ins, ec)
				} else if p.Index >= 0 && b.Dominates(p) {
					u.limit("loop in pure function %s", FuncName(fn))
				}
			}
			c = u.nameShort(Or(ins...), "bc")
			bcond[b] = c
		}
		// phis
		for _, in := range b.Instrs {
			ph, ok := in.(*ssa.Phi)
			if !ok {
				break
			}
			var v Val
			first := true
			for i := len(b.Preds) - 1; i >= 0; i-- {
				p := b.Preds[i]
				ec, ok := econd[[2]int{p.Index, b.Index}]
				if !ok {
					continue
				}
				ev := u.get(st, fr, ph.Edges[i])
				if first {
					v = ev
					first = false
				} else {
					v = u.mergeVal(ec, ev, v)
				}
			}
			fr.regs[ph] = v
		}
		for _, instr := range b.Instrs {
			switch in := instr.(type) {
			case *ssa.Phi, *ssa.DebugRef:
			case *ssa.Call:
				var res Val
				got := false
				u.doCall(st, fr, in, func(_ *State, r Val) { res = r; got = true })
				if !got {
					res = u.havocResult(st, in.Type(), "pure_nores")
				}
				fr.regs[in] = res
			case *ssa.If:
				cv := u.nameShort(u.get(st, fr, in.Cond).(*Term), "cv")
				econd[[2]int{b.Index, b.Succs[0].Index}] = orNil(econd[[2]int{b.Index, b.Succs[0].Index}], And(c, cv))
				econd[[2]int{b.Index, b.Succs[1].Index}] = orNil(econd[[2]int{b.Index, b.Succs[1].Index}], And(c, Not(cv)))
			case *ssa.Jump:
				econd[[2]int{b.Index, b.Succs[0].Index}] = orNil(econd[[2]int{b.Index, b.Succs[0].Index}], c)
			case *ssa.Return:
				var v Val
				switch len(in.Results) {
				case 0:
				case 1:
					v = u.get(st, fr, in.Results[0])
				default:
					e := make([]Val, len(in.Results))
					for j, r := range in.Results {
						e[j] = u.get(st, fr, r)
					}
					v = TupleV{E: e}
				}
				rets = append(rets, ret{c, v})
			case *ssa.Panic:
				// unreachable in specs; contributes nothing
			default:
				u.step(st, fr, in)
			}
		}
	}
	if len(rets) == 0 {
		return u.havocResult(st, fn.Signature.Results(), "pure_noret")
	}
	v := rets[len(rets)-1].v
	for i := len(rets) - 2; i >= 0; i-- {
		v = u.mergeVal(rets[i].c, rets[i].v, v)
	}
	if memoKey != "" {
		st.memo[memoKey] = v
	}
	return v
}

func orNil(a, b *Term) *Term {
	if a == nil {
		return b
	}
	return Or(a, b)
}

func rpo(fn *ssa.Function) []*ssa.BasicBlock {
	seen := map[*ssa.BasicBlock]bool{}
	var post []*ssa.BasicBlock
	var dfs func(b *ssa.BasicBlock)
	dfs = func(b *ssa.BasicBlock) {
		seen[b] = true
		for _, s := range b.Succs {
			if !seen[s] {
				dfs(s)
			}
		}
		post = append(post, b)
	}
	dfs(fn.Blocks[0])
	for i, j := 0, len(post)-1; i < j; i, j = i+1, j-1 {
		post[i], post[j] = post[j], post[i]
	}
	return post
}

// mergeVal builds ite(c, a, b) on values.
func (u *Unit) mergeVal(c *Term, a, b Val) Val {
	if c.IsBool {
		if c.B {
			return a
		}
		return b
	}
	switch x := a.(type) {
	case nil:
		return b
	case *Term:
		y, ok := b.(*Term)
		if !ok {
			return a
		}
		return Ite(c, x, y)
	case SliceV:
		y, ok := b.(SliceV)
		if !ok {
			return a
		}
		r := SliceV{Blk: Ite(c, x.Blk, y.Blk), Off: Ite(c, x.Off, y.Off), Len: Ite(c, x.Len, y.Len), Cap: Ite(c, x.Cap, y.Cap), Elem: x.Elem, List: x.List, LOff: x.LOff}
		if !r.Blk.IsInt && r.Blk.S != x.Blk.S && r.Blk.S != y.Blk.S {
			var other *Term
			if x.Blk.IsInt && x.Blk.I.Sign() == 0 {
				other = y.Blk
			} else if y.Blk.IsInt && y.Blk.I.Sign() == 0 {
				other = x.Blk
			}
			if other != nil {
				nb := *r.Blk
				nb.BlkOf = other
				if other.BlkOf != nil {
					nb.BlkOf = other.BlkOf
				}
				r.Blk = &nb
			}
		}
		if x.List != y.List && x.List != nil && y.List != nil {
			u.limit("merge of different non-byte slices in a pure function")
		}
		if x.List == nil {
			r.List, r.LOff = y.List, y.LOff
		}
		return r
	case StrV:
		y, ok := b.(StrV)
		if !ok {
			return a
		}
		if x.IsLit && y.IsLit && x.Lit == y.Lit {
			return x
		}
		return StrV{Arr: Ite(c, x.Arr, y.Arr), Len: Ite(c, x.Len, y.Len)}
	case ArrV:
		y, ok := b.(ArrV)
		if !ok {
			return a
		}
		return ArrV{Arr: Ite(c, x.Arr, y.Arr), N: x.N}
	case TupleV:
		y, ok := b.(TupleV)
		if !ok || len(y.E) != len(x.E) {
			return a
		}
		e := make([]Val, len(x.E))
		for i := range e {
			e[i] = u.mergeVal(c, x.E[i], y.E[i])
		}
		return TupleV{E: e}
	case StructV:
		y, ok := b.(StructV)
		if !ok || len(y.F) != len(x.F) {
			return a
		}
		f := make([]Val, len(x.F))
		for i := range f {
			f[i] = u.mergeVal(c, x.F[i], y.F[i])
		}
		return StructV{F: f, T: x.T}
	case ArrTupleV:
		y, ok := b.(ArrTupleV)
		if !ok || len(y.E) != len(x.E) {
			return a
		}
		e := make([]Val, len(x.E))
		for i := range e {
			e[i] = u.mergeVal(c, x.E[i], y.E[i])
		}
		return ArrTupleV{E: e, T: x.T}
	case PtrV:
		y, ok := b.(PtrV)
		if !ok {
			return a
		}
		if x.Cell == y.Cell && fmt.Sprint(x.Path) == fmt.Sprint(y.Path) && x.Blk == nil && y.Blk == nil {
			return PtrV{Nil: Ite(c, x.Nil, y.Nil), Cell: x.Cell, Path: x.Path, Elem: x.Elem}
		}
		if x.Cell == nil && x.Blk == nil {
			return PtrV{Nil: Ite(c, TTrue, y.Nil), Cell: y.Cell, Path: y.Path, Elem: y.Elem, Blk: y.Blk, Idx: y.Idx}
		}
		if y.Cell == nil && y.Blk == nil {
			return PtrV{Nil: Ite(c, x.Nil, TTrue), Cell: x.Cell, Path: x.Path, Elem: x.Elem, Blk: x.Blk, Idx: x.Idx}
		}
		u.limit("merge of pointers to different cells in a pure function")
		return a
	case IfaceV:
		y, ok := b.(IfaceV)
		if !ok {
			return a
		}
		if x.Opq != nil && y.Opq != nil {
			return IfaceV{Nil: Ite(c, x.Nil, y.Nil), Opq: Ite(c, x.Opq, y.Opq)}
		}
		if x.Nil.IsBool && x.Nil.B {
			r := y
			r.Nil = Ite(c, TTrue, y.Nil)
			return r
		}
		if y.Nil.IsBool && y.Nil.B {
			r := x
			r.Nil = Ite(c, x.Nil, TTrue)
			return r
		}
		u.limit("merge of different interface values in a pure function")
		return a
	case TimeV:
		y, ok := b.(TimeV)
		if !ok {
			return a
		}
		return TimeV{NS: Ite(c, x.NS, y.NS)}
	}
	return a
}

// ---------------------------------------------------------------- intrinsics

func (u *Unit) seqOf(st *State, v Val) (arr, off, ln *Term) {
	switch s := v.(type) {
	case SliceV:
		r := u.regionOf(st, s.Blk)
		return r.C, s.Off, s.Len
	case StrV:
		return s.Arr, IntLit(0), s.Len
	case ArrV:
		return s.Arr, IntLit(0), IntLit(s.N)
	}
	panic(fmt.Sprintf("seqOf %T", v))
}

// varargs unpacks a variadic []T argument built by the compiler.
func (u *Unit) varargs(st *State, v Val) []Val {
	s, ok := v.(SliceV)
	if !ok || s.List == nil || !s.Len.IsInt {
		return nil
	}
	var out []Val
	for i := 0; i < int(s.Len.I.Int64()); i++ {
		out = append(out, u.loadCell(st, u.listCell(s.List, s.LOff+i)))
	}
	return out
}

func (u *Unit) beBytesSeq(st *State, v *Term, n int) SliceV {
	bytes := make([]*Term, n)
	cur := v
	for i := n - 1; i >= 0; i-- {
		q, r := u.floorDivMod(cur, big.NewInt(256))
		bytes[i] = r
		cur = q
	}
	r := u.virtRegion(st, u.mkArr(func(j *Term) *Term {
		res := bytes[n-1]
		for i := n - 2; i >= 0; i-- {
			res = Ite(Eq(j, IntLit(int64(i))), bytes[i], res)
		}
		return res
	}))
	return SliceV{Blk: r.Blk, Off: IntLit(0), Len: IntLit(int64(n)), Cap: IntLit(int64(n)), Elem: types.Typ[types.Uint8]}
}

func (u *Unit) intrinsic(st *State, fr *Frame, in *ssa.Call, fn *ssa.Function, args []Val) (Val, bool) {
	switch strings.TrimPrefix(fn.Name(), "gvc_") {
	case "assert":
		if u.specMode > 0 {
			return nil, true
		}
		name := fmt.Sprintf("%s#lemma:%s", FuncName(fr.fn), u.specSrc(fr.fn, in))
		u.check(st, name, "lemma", args[0].(*Term), "assert")
		return nil, true
	case "assume":
		if u.specMode == 0 {
			u.assume(args[0].(*Term))
			u.NAssumeCalls++
		}
		return nil, true
	case "implies":
		return Implies(args[0].(*Term), args[1].(*Term)), true
	case "seqeq":
		a1, o1, l1 := u.seqOf(st, args[0])
		a2, o2, l2 := u.seqOf(st, args[1])
		if u.specMode == 0 && flowsOnlyToAssert(in, 0) {
			u.goalMode++
			defer func() { u.goalMode-- }()
		}
		return u.seqEqTerm(a1, o1, l1, a2, o2, l2), true
	case "cat":
		parts := u.varargs(st, args[0])
		if len(parts) == 0 {
			return u.zeroVal(types.NewSlice(types.Typ[types.Uint8])), true
		}
		type seg struct{ arr, off, start, end *Term }
		var segs []seg
		pos := IntLit(0)
		for _, p := range parts {
			a, o, l := u.seqOf(st, p)
			end := u.name(Add(pos, l), "ce")
			segs = append(segs, seg{a, u.name(o, "co"), pos, end})
			pos = end
		}
		r := u.virtRegion(st, u.mkArr(func(j *Term) *Term {
			body := IntLit(0)
			for i := len(segs) - 1; i >= 0; i-- {
				s := segs[i]
				body = Ite(Lt(j, s.end), Select(s.arr, Add(s.off, Sub(j, s.start))), body)
			}
			return body
		}))
		return SliceV{Blk: r.Blk, Off: IntLit(0), Len: pos, Cap: pos, Elem: types.Typ[types.Uint8]}, true
	case "sub":
		s := args[0].(SliceV)
		lo, hi := args[1].(*Term), args[2].(*Term)
		lo = Ite(Lt(lo, IntLit(0)), IntLit(0), lo)
		hi = Ite(Gt(hi, s.Len), s.Len, hi)
		ln := Ite(Gt(lo, hi), IntLit(0), Sub(hi, lo))
		return SliceV{Blk: s.Blk, Off: Add(s.Off, lo), Len: ln, Cap: ln, Elem: s.Elem}, true
	case "u16", "u32":
		n := int64(2)
		if strings.HasSuffix(fn.Name(), "u32") {
			n = 4
		}
		a, o, l := u.seqOf(st, args[0])
		sum := IntLit(0)
		o = u.name(o, "vo")
		for i := int64(0); i < n; i++ {
			by := u.nameShort(Select(a, Add(o, IntLit(i))), "vb")
			u.byteFact(by)
			sum = Add(Mul(sum, IntLit(256)), by)
		}
		return Ite(Lt(l, IntLit(n)), IntLit(0), sum), true
	case "val":
		a, o, l := u.seqOf(st, args[0])
		res := IntLit(0)
		o = u.name(o, "vo")
		l = u.name(l, "vl")
		var bs [8]*Term
		for i := int64(0); i < 8; i++ {
			bs[i] = u.nameShort(Select(a, Add(o, IntLit(i))), "vb")
			u.byteFact(bs[i])
		}
		// prefix sums: s_n = value of the first n bytes
		sum := IntLit(0)
		var sums [9]*Term
		for n := int64(1); n <= 8; n++ {
			sum = u.nameShort(Add(Mul(sum, IntLit(256)), bs[n-1]), "vs")
			sums[n] = sum
		}
		for n := int64(8); n >= 1; n-- {
			res = Ite(Eq(l, IntLit(n)), sums[n], res)
		}
		return res, true
	case "forall", "exists":
		lo, hi := args[0].(*Term), args[1].(*Term)
		f := args[2].(FuncV)
		u.nq++
		v := fmt.Sprintf("q%d", u.nq)
		i := Const(v, SInt)
		u.binder++
		body := u.evalPure(st, f.Fn, []Val{i}, f.Bind).(*Term)
		u.binder--
		rng := And(Le(lo, i), Lt(i, hi))
		if strings.HasSuffix(fn.Name(), "forall") {
			return Forall(v, Implies(rng, body)), true
		}
		return Exists(v, And(rng, body)), true
	case "suffix":
		rem, data := args[0].(SliceV), args[1].(SliceV)
		k := args[2].(*Term)
		return And(Le(IntLit(0), k), Le(k, data.Len), Eq(rem.Len, Sub(data.Len, k)),
			Implies(Gt(rem.Len, IntLit(0)), And(Eq(rem.Blk, data.Blk), Eq(rem.Off, Add(data.Off, k))))), true
	case "within":
		r, data := args[0].(SliceV), args[1].(SliceV)
		return Or(Eq(r.Cap, IntLit(0)),
			And(Eq(r.Blk, data.Blk), Neq(data.Blk, IntLit(0)), Le(data.Off, r.Off), Le(Add(r.Off, r.Cap), Add(data.Off, data.Cap)))), true
	case "fresh":
		s := args[0].(SliceV)
		base := u.ctxBase
		if base == nil {
			base = u.alloc0
		}
		return Or(Eq(s.Blk, IntLit(0)), Ge(s.Blk, base)), true
	case "disjoint":
		parts := u.varargs(st, args[0])
		var cs []*Term
		for i := 0; i < len(parts); i++ {
			for j := i + 1; j < len(parts); j++ {
				a, aok := parts[i].(SliceV)
				b, bok := parts[j].(SliceV)
				if !aok || !bok {
					continue
				}
				cs = append(cs, Or(Eq(a.Blk, IntLit(0)), Eq(b.Blk, IntLit(0)), Neq(a.Blk, b.Blk)))
			}
		}
		return And(cs...), true
	case "same":
		a, b := args[0].(SliceV), args[1].(SliceV)
		return And(Eq(a.Blk, b.Blk), Eq(a.Off, b.Off), Eq(a.Len, b.Len), Eq(a.Cap, b.Cap)), true
	case "isnil":
		return Eq(args[0].(SliceV).Blk, IntLit(0)), true
	case "ishash":
		goal := u.goalMode > 0
		if u.specMode == 0 && flowsOnlyToAssert(in, 0) {
			goal = true
		}
		return u.isHash(st, args[0], args[1], goal), true
	case "sigvalid":
		goal := u.goalMode > 0
		if u.specMode == 0 && flowsOnlyToAssert(in, 0) {
			goal = true
		}
		return u.sigValid(st, u.seqRefOf(st, args[0]), u.seqRefOf(st, args[1]), u.seqRefOf(st, args[2]), goal), true
	}
	return nil, false
}

// specSrc: text of the assert call inside a lemma (from the generated file).
func (u *Unit) specSrc(fn *ssa.Function, in *ssa.Call) string {
	p := u.P.Fset.Position(in.Pos())
	sf := u.P.Specs[fn.Pkg.Pkg.Path()]
	if sf == nil {
		return fmt.Sprintf("assert@%d", p.Line)
	}
	lines := sf.genLines()
	if p.Line-1 < len(lines) {
		return trimSpaceStr(lines[p.Line-1])
	}
	return fmt.Sprintf("assert@%d", p.Line)
}

// flowsOnlyToAssert: every use of v is the argument of gvc_assert, possibly
// through phis (the && of a lemma's assert argument).
func flowsOnlyToAssert(v ssa.Value, depth int) bool {
	if depth > 6 {
		return false
	}
	refs := v.Referrers()
	if refs == nil || len(*refs) == 0 {
		return false
	}
	for _, r := range *refs {
		switch x := r.(type) {
		case *ssa.DebugRef:
		case *ssa.Call:
			f := x.Call.StaticCallee()
			if f == nil || f.Name() != "gvc_assert" {
				return false
			}
		case *ssa.Phi:
			if !flowsOnlyToAssert(x, depth+1) {
				return false
			}
		case *ssa.If:
			// the condition of a short-circuit && / || that itself ends in assert:
			// cannot tell the polarity here
			return false
		default:
			return false
		}
	}
	return true
}
