package gvc

import (
	"bytes"
	"fmt"
	"go/ast"
	"go/parser"
	"go/printer"
	"go/token"
	"os"
	"path/filepath"
	"regexp"
	"strings"

	"golang.org/x/tools/go/ssa"
)

// Clause is one requires/ensures clause compiled to a boolean Go function.
type Clause struct {
	Kind  string // requires | ensures
	Text  string // source text as written (with ==>)
	Func  string // generated Go function name
	Props []string
	Line  int
	// ByLemma: the clause is not checked against the body in the function's own
	// unit; it is exactly the statement of the named lemma, which is proved with
	// the function's body unfolded.
	ByLemma string
}

// Contract of one function or method.
type Contract struct {
	Key      string // "Name" or "T.Name" (receiver type name without *)
	Header   string
	Requires []*Clause
	Ensures  []*Clause
	Modifies string // "" = unspecified, "nothing"
	Pure     bool
	Line     int
	NParams  int // receiver + params
	NResults int
	Trusted  bool // contract is assumed, not verified against the body (listed)
}

type Lemma struct {
	Name  string
	Func  string
	Props []string
	Line  int
}

// SpecFile is the parsed //@ file of one package.
type SpecFile struct {
	Path      string
	PkgName   string
	Imports   []string
	Contracts map[string]*Contract
	Order     []string
	Lemmas    []*Lemma
	Loops     map[string]*LoopSpec // "Func#ordinal"
	Inline    map[string]bool
	NoContract map[string][]string // unit (lemma/function) -> functions whose contracts are not used there
	SpecFuncs []string
	ElemInvs  []string
	body      bytes.Buffer
	NAssume   int
	gen       []string
	NTrusted  int
	NBounded  int
}

var byLemmaRe = regexp.MustCompile(`^\[by ([A-Za-z0-9_]+)\]\s*`)

var tagRe = regexp.MustCompile(`^((?:@C\d+\s+)*)`)

func ParseSpecFile(path string) (*SpecFile, error) {
	raw, err := os.ReadFile(path)
	if err != nil {
		return nil, err
	}
	sf := &SpecFile{Path: path, Contracts: map[string]*Contract{}, Loops: map[string]*LoopSpec{}, Inline: map[string]bool{}, NoContract: map[string][]string{}}
	lines := strings.Split(string(raw), "\n")
	var cur *Contract
	var curLoop *LoopSpec
	inBlock := false // inside spec func / lemma body
	for ln := 0; ln < len(lines); ln++ {
		line := strings.TrimSpace(lines[ln])
		if strings.HasPrefix(line, "package ") && sf.PkgName == "" {
			sf.PkgName = strings.TrimSpace(strings.TrimPrefix(line, "package "))
			continue
		}
		if !strings.HasPrefix(line, "//@") {
			continue
		}
		txt := strings.TrimPrefix(line, "//@")
		if strings.HasPrefix(txt, " ") {
			txt = txt[1:]
		}
		trim := strings.TrimSpace(txt)
		if inBlock {
			if strings.Contains(trim, "assume(") {
				sf.NAssume++
			}
			sf.body.WriteString(rewriteLine(txt))
			sf.body.WriteByte('\n')
			if trim == "}" && !strings.HasPrefix(txt, " ") && !strings.HasPrefix(txt, "\t") {
				inBlock = false
			}
			continue
		}
		fields := strings.Fields(trim)
		if len(fields) == 0 {
			continue
		}
		switch fields[0] {
		case "import":
			sf.Imports = append(sf.Imports, strings.TrimSpace(strings.TrimPrefix(trim, "import")))
		case "option":
			// option <unit> nocontract <F1> <F2> ...
			if len(fields) >= 4 && fields[2] == "nocontract" {
				sf.NoContract[fields[1]] = append(sf.NoContract[fields[1]], fields[3:]...)
			}
		case "inline":
			for _, f := range fields[1:] {
				sf.Inline[f] = true
			}
		case "elem":
			// elem <SpecFunc>: every element of a list whose element type is
			// the parameter type of SpecFunc satisfies it (data-structure
			// invariant: assumed of lists that come from outside the unit,
			// proved of lists a function under contract returns)
			sf.ElemInvs = append(sf.ElemInvs, fields[1:]...)
		case "contract", "trusted":
			hdr := strings.TrimSpace(strings.TrimPrefix(trim, fields[0]))
			c, err := sf.newContract(hdr, ln+1)
			if err != nil {
				return nil, fmt.Errorf("%s:%d: %v", path, ln+1, err)
			}
			if fields[0] == "trusted" {
				c.Trusted = true
				sf.NTrusted++
			}
			cur = c
			curLoop = nil
		case "requires", "ensures":
			if cur == nil {
				return nil, fmt.Errorf("%s:%d: clause outside contract", path, ln+1)
			}
			rest := strings.TrimSpace(strings.TrimPrefix(trim, fields[0]))
			// continuation lines: following //@ lines that start with more indentation and no keyword
			for ln+1 < len(lines) {
				nx := strings.TrimSpace(lines[ln+1])
				if !strings.HasPrefix(nx, "//@") {
					break
				}
				nt := strings.TrimSpace(strings.TrimPrefix(nx, "//@"))
				nf := strings.Fields(nt)
				if len(nf) == 0 || isKeyword(nf[0]) {
					break
				}
				rest += " " + nt
				ln++
			}
			var props []string
			m := tagRe.FindString(rest)
			for _, t := range strings.Fields(m) {
				props = append(props, strings.TrimPrefix(t, "@"))
			}
			rest = strings.TrimSpace(rest[len(m):])
			byLemma := ""
			if mm := byLemmaRe.FindStringSubmatch(rest); mm != nil {
				byLemma = mm[1]
				rest = strings.TrimSpace(rest[len(mm[0]):])
			}
			cl := &Clause{Kind: fields[0], Text: rest, Props: props, Line: ln + 1, ByLemma: byLemma}
			if fields[0] == "requires" {
				cl.Func = fmt.Sprintf("gvcC_%s_req%d", sanitizeKey(cur.Key), len(cur.Requires))
				cur.Requires = append(cur.Requires, cl)
			} else {
				cl.Func = fmt.Sprintf("gvcC_%s_ens%d", sanitizeKey(cur.Key), len(cur.Ensures))
				cur.Ensures = append(cur.Ensures, cl)
			}
			sf.emitClause(cur, cl)
		case "modifies":
			if cur != nil {
				cur.Modifies = strings.TrimSpace(strings.TrimPrefix(trim, "modifies"))
			}
		case "pure":
			if cur != nil {
				cur.Pure = true
			}
		case "loop":
			// loop <Func> <ordinal>: unroll N | bounded N | invariant <expr>
			//   (Func may be omitted inside a contract block)
			rest := strings.TrimSpace(strings.TrimPrefix(trim, "loop"))
			parts := strings.SplitN(rest, ":", 2)
			if len(parts) != 2 {
				return nil, fmt.Errorf("%s:%d: bad loop clause", path, ln+1)
			}
			hf := strings.Fields(parts[0])
			var fname string
			var ord int
			switch len(hf) {
			case 1:
				if cur == nil {
					return nil, fmt.Errorf("%s:%d: loop without function", path, ln+1)
				}
				fname = cur.Key
				fmt.Sscanf(hf[0], "%d", &ord)
			case 2:
				fname = hf[0]
				fmt.Sscanf(hf[1], "%d", &ord)
			default:
				return nil, fmt.Errorf("%s:%d: bad loop clause", path, ln+1)
			}
			body := strings.Fields(strings.TrimSpace(parts[1]))
			curLoop = &LoopSpec{}
			if len(body) >= 2 && (body[0] == "unroll" || body[0] == "bounded" || body[0] == "concrete") {
				curLoop.Mode = body[0]
				fmt.Sscanf(body[1], "%d", &curLoop.N)
				if body[0] == "bounded" {
					sf.NBounded++
				}
			} else if len(body) >= 1 && body[0] == "invariant" {
				curLoop.Mode = "invariant"
				curLoop.Inv = append(curLoop.Inv, strings.TrimSpace(strings.TrimPrefix(strings.TrimSpace(parts[1]), "invariant")))
			}
			sf.Loops[fmt.Sprintf("%s#%d", fname, ord)] = curLoop
		case "spec":
			// spec func name(...) T { ... }
			code := strings.TrimSpace(strings.TrimPrefix(trim, "spec"))
			sf.body.WriteString(rewriteLine(code))
			sf.body.WriteByte('\n')
			if nm := funcNameOf(code); nm != "" {
				sf.SpecFuncs = append(sf.SpecFuncs, nm)
			}
			if !balanced(code) {
				inBlock = true
			}
			cur = nil
		case "lemma":
			code := strings.TrimSpace(strings.TrimPrefix(trim, "lemma"))
			nm := funcNameOf("func " + code)
			lm := &Lemma{Name: nm, Func: "gvcL_" + nm, Line: ln + 1}
			// C01_Name, or C01_C11_Name for a lemma that serves several properties
			rest := nm
			for {
				m := regexp.MustCompile(`^(C\d+)_`).FindStringSubmatch(rest)
				if m == nil {
					break
				}
				lm.Props = append(lm.Props, m[1])
				rest = rest[len(m[0]):]
			}
			sf.Lemmas = append(sf.Lemmas, lm)
			sf.body.WriteString("func gvcL_" + rewriteLine(code))
			sf.body.WriteByte('\n')
			if !balanced(code) {
				inBlock = true
			}
			cur = nil
		default:
			return nil, fmt.Errorf("%s:%d: unknown directive %q", path, ln+1, fields[0])
		}
	}
	return sf, nil
}

func isKeyword(s string) bool {
	switch s {
	case "import", "inline", "elem", "option", "contract", "trusted", "requires", "ensures", "modifies", "pure", "loop", "spec", "lemma":
		return true
	}
	return false
}

func sanitizeKey(k string) string {
	return strings.NewReplacer(".", "_", "*", "", "(", "", ")", "").Replace(k)
}

func balanced(s string) bool {
	d := 0
	seen := false
	for _, r := range s {
		switch r {
		case '{':
			d++
			seen = true
		case '}':
			d--
		}
	}
	return seen && d == 0
}

func funcNameOf(code string) string {
	m := regexp.MustCompile(`^func\s+([A-Za-z_][A-Za-z0-9_]*)`).FindStringSubmatch(code)
	if m == nil {
		return ""
	}
	return m[1]
}

// newContract parses "Name(params) (results)" or "(r T) Name(params) (results)".
func (sf *SpecFile) newContract(hdr string, line int) (*Contract, error) {
	src := "package p\nfunc " + hdr + " {}"
	fset := token.NewFileSet()
	f, err := parser.ParseFile(fset, "", src, 0)
	if err != nil {
		return nil, fmt.Errorf("bad contract header %q: %v", hdr, err)
	}
	fd := f.Decls[0].(*ast.FuncDecl)
	key := fd.Name.Name
	if fd.Recv != nil && len(fd.Recv.List) == 1 {
		t := fd.Recv.List[0].Type
		if s, ok := t.(*ast.StarExpr); ok {
			t = s.X
		}
		key = exprString(t) + "." + key
	}
	c := &Contract{Key: key, Header: hdr, Line: line}
	count := func(fl *ast.FieldList) int {
		n := 0
		if fl == nil {
			return 0
		}
		for _, f := range fl.List {
			if len(f.Names) == 0 {
				n++
			} else {
				n += len(f.Names)
			}
		}
		return n
	}
	c.NParams = count(fd.Recv) + count(fd.Type.Params)
	c.NResults = count(fd.Type.Results)
	if _, dup := sf.Contracts[key]; dup {
		return nil, fmt.Errorf("duplicate contract for %s", key)
	}
	sf.Contracts[key] = c
	sf.Order = append(sf.Order, key)
	return c, nil
}

func exprString(e ast.Expr) string {
	var b bytes.Buffer
	printer.Fprint(&b, token.NewFileSet(), e)
	return b.String()
}

// paramList renders receiver+params(+results) of a contract header as one
// Go parameter list.
func paramList(hdr string, withResults bool) (string, error) {
	src := "package p\nfunc " + hdr + " {}"
	fset := token.NewFileSet()
	f, err := parser.ParseFile(fset, "", src, 0)
	if err != nil {
		return "", err
	}
	fd := f.Decls[0].(*ast.FuncDecl)
	var parts []string
	n := 0
	add := func(fl *ast.FieldList, prefix string) {
		if fl == nil {
			return
		}
		for _, fld := range fl.List {
			t := exprString(fld.Type)
			if strings.HasPrefix(t, "...") {
				t = "[]" + t[3:]
			}
			if len(fld.Names) == 0 {
				n++
				parts = append(parts, fmt.Sprintf("%s%d %s", prefix, n, t))
				continue
			}
			for _, nm := range fld.Names {
				name := nm.Name
				if name == "_" {
					n++
					name = fmt.Sprintf("%s%d", prefix, n)
				}
				parts = append(parts, name+" "+t)
			}
		}
	}
	add(fd.Recv, "recv")
	add(fd.Type.Params, "p")
	if withResults {
		add(fd.Type.Results, "res")
	}
	return strings.Join(parts, ", "), nil
}

func (sf *SpecFile) emitClause(c *Contract, cl *Clause) {
	pl, err := paramList(c.Header, cl.Kind == "ensures")
	if err != nil {
		pl = "/* " + err.Error() + " */"
	}
	fmt.Fprintf(&sf.body, "func %s(%s) bool { return %s }\n", cl.Func, pl, rewriteImplies(cl.Text))
}

// rewriteLine rewrites ==> inside a line of Go code from a spec/lemma body.
func rewriteLine(s string) string {
	if !strings.Contains(s, "==>") {
		return s
	}
	t := strings.TrimLeft(s, " \t")
	ind := s[:len(s)-len(t)]
	if strings.HasPrefix(t, "return ") {
		return ind + "return " + rewriteImplies(strings.TrimPrefix(t, "return "))
	}
	return ind + rewriteImplies(t)
}

// rewriteImplies turns  A ==> B  (lowest precedence, right associative) into
// (!(A) || (B)) inside every parenthesised group and at top level.
func rewriteImplies(s string) string {
	if !strings.Contains(s, "==>") {
		return s
	}
	// first rewrite inside parenthesised / bracketed / braced groups
	var out strings.Builder
	i := 0
	for i < len(s) {
		ch := s[i]
		if ch == '(' || ch == '[' || ch == '{' {
			j := matchClose(s, i)
			if j < 0 {
				out.WriteString(s[i:])
				i = len(s)
				break
			}
			out.WriteByte(ch)
			out.WriteString(rewriteImplies(s[i+1 : j]))
			out.WriteByte(s[j])
			i = j + 1
			continue
		}
		if ch == '"' || ch == '`' || ch == '\'' {
			j := i + 1
			for j < len(s) && s[j] != ch {
				if s[j] == '\\' && ch != '`' {
					j++
				}
				j++
			}
			if j >= len(s) {
				j = len(s) - 1
			}
			out.WriteString(s[i : j+1])
			i = j + 1
			continue
		}
		out.WriteByte(ch)
		i++
	}
	s = out.String()
	// now split at top-level ==> (none remain inside groups); also split on
	// top-level commas / semicolons so that call arguments are handled
	return splitTop(s)
}

func splitTop(s string) string {
	// split on top-level ',' or ';' first
	depth := 0
	for i := 0; i < len(s); i++ {
		switch s[i] {
		case '(', '[', '{':
			depth++
		case ')', ']', '}':
			depth--
		case '"', '`', '\'':
			q := s[i]
			i++
			for i < len(s) && s[i] != q {
				if s[i] == '\\' && q != '`' {
					i++
				}
				i++
			}
		case ',', ';':
			if depth == 0 {
				return splitTop(s[:i]) + string(s[i]) + splitTop(s[i+1:])
			}
		}
	}
	depth = 0
	for i := 0; i+2 < len(s); i++ {
		switch s[i] {
		case '(', '[', '{':
			depth++
		case ')', ']', '}':
			depth--
		case '"', '`', '\'':
			q := s[i]
			i++
			for i < len(s) && s[i] != q {
				if s[i] == '\\' && q != '`' {
					i++
				}
				i++
			}
		case '=':
			if depth == 0 && s[i:i+3] == "==>" {
				return "(!(" + strings.TrimSpace(s[:i]) + ") || (" + splitTop(strings.TrimSpace(s[i+3:])) + "))"
			}
		}
	}
	return s
}

func matchClose(s string, i int) int {
	open := s[i]
	var cl byte
	switch open {
	case '(':
		cl = ')'
	case '[':
		cl = ']'
	default:
		cl = '}'
	}
	d := 0
	for j := i; j < len(s); j++ {
		switch s[j] {
		case open:
			d++
		case cl:
			d--
			if d == 0 {
				return j
			}
		case '"', '`', '\'':
			q := s[j]
			j++
			for j < len(s) && s[j] != q {
				if s[j] == '\\' && q != '`' {
					j++
				}
				j++
			}
		}
	}
	return -1
}

// GoSource renders the synthetic Go file injected into the package.
func (sf *SpecFile) GoSource() string {
	var b strings.Builder
	fmt.Fprintf(&b, "// Code generated by gvc from %s; DO NOT EDIT.\n\npackage %s\n\n", filepath.Base(sf.Path), sf.PkgName)
	for _, im := range sf.Imports {
		fmt.Fprintf(&b, "import %s\n", im)
	}
	b.WriteString(renamePrelude(prelude))
	b.WriteString("\n")
	b.WriteString(renamePrelude(sf.body.String()))
	return b.String()
}

// shortFuncName: "Name" or "T.Name" for contract lookup.
func shortFuncName(fn *ssa.Function) string {
	if fn.Signature.Recv() != nil {
		t := fn.Signature.Recv().Type()
		s := typeString(t)
		s = strings.TrimPrefix(s, "*")
		if i := strings.LastIndex(s, "."); i >= 0 {
			s = s[i+1:]
		}
		return s + "." + fn.Name()
	}
	return fn.Name()
}

// ContractOf finds the contract attached to fn (nil if none).
func (p *Program) ContractOf(fn *ssa.Function) *Contract {
	if fn == nil || fn.Pkg == nil {
		return nil
	}
	sf := p.Specs[fn.Pkg.Pkg.Path()]
	if sf == nil {
		return nil
	}
	return sf.Contracts[shortFuncName(fn)]
}

// prelude: ghost vocabulary with executable bodies (used verbatim by replays).
const prelude = `
type gvcAssumeFailed struct{}

func assert(b bool) {
	if !b {
		panic("gvc: assertion failed")
	}
}

func assume(b bool) {
	if !b {
		panic(gvcAssumeFailed{})
	}
}

func implies(a, b bool) bool { return !a || b }

func seqeq(a, b []byte) bool {
	if len(a) != len(b) {
		return false
	}
	for i := range a {
		if a[i] != b[i] {
			return false
		}
	}
	return true
}

func cat(xs ...[]byte) []byte {
	var r []byte
	for _, x := range xs {
		r = append(r, x...)
	}
	return r
}

// sub is total: out-of-range bounds are clamped.
func sub(a []byte, lo, hi int) []byte {
	if lo < 0 {
		lo = 0
	}
	if hi > len(a) {
		hi = len(a)
	}
	if lo > hi {
		return nil
	}
	return a[lo:hi]
}

// val: big-endian value of up to 8 bytes (mathematical, as uint64).
func val(b []byte) uint64 {
	var v uint64
	for _, x := range b {
		v = v<<8 | uint64(x)
	}
	return v
}

func u16(b []byte) int {
	if len(b) < 2 {
		return 0
	}
	return int(b[0])<<8 | int(b[1])
}

func u32(b []byte) int {
	if len(b) < 4 {
		return 0
	}
	return int(b[0])<<24 | int(b[1])<<16 | int(b[2])<<8 | int(b[3])
}

func forall(lo, hi int, f func(i int) bool) bool {
	for i := lo; i < hi; i++ {
		if !f(i) {
			return false
		}
	}
	return true
}

func exists(lo, hi int, f func(i int) bool) bool {
	for i := lo; i < hi; i++ {
		if f(i) {
			return true
		}
	}
	return false
}

// suffix: rem is data[k:] (an empty or nil rem is the empty suffix).
func suffix(rem, data []byte, k int) bool {
	if k < 0 || k > len(data) || len(rem) != len(data)-k {
		return false
	}
	return len(rem) == 0 || &rem[0] == &data[k]
}

// within: r is nil/empty or a sub-slice of data's backing block.
func within(r, data []byte) bool {
	if cap(r) == 0 {
		return true
	}
	if cap(data) == 0 {
		return false
	}
	full := data[:cap(data)]
	r0 := &r[:1][0]
	for i := range full {
		if &full[i] == r0 {
			return true
		}
	}
	return false
}

// fresh: b does not point into memory that existed before the call (cannot
// be observed by executable code; replays treat it as true).
func fresh(b []byte) bool { return true }

// same: identical slice header.
func same(a, b []byte) bool {
	if len(a) != len(b) || cap(a) != cap(b) || (a == nil) != (b == nil) {
		return false
	}
	return cap(a) == 0 || &a[:1][0] == &b[:1][0]
}

func isnil(b []byte) bool { return b == nil }

// disjoint: the non-nil slices lie in pairwise different allocations (not
// observable by executable code; replays treat it as true).
func disjoint(xs ...[]byte) bool { return true }

// sigvalid: sig is a cryptographically valid signature of data under the
// public key with bytes key (ghost predicate: uninterpreted in proofs, decided
// only by what the verification primitives reported; not executable).
func sigvalid(key, data, sig []byte) bool { return false }

// ishash: h is the SHA-256 digest of data (ghost predicate, see sigvalid).
func ishash(h [32]byte, data []byte) bool { return false }
`

func (sf *SpecFile) genLines() []string {
	if sf.gen == nil {
		sf.gen = strings.Split(sf.GoSource(), "\n")
	}
	return sf.gen
}

func trimSpaceStr(s string) string { return strings.Join(strings.Fields(s), " ") }

var preludeRe = regexp.MustCompile(`(^|[^.\w])(assert|assume|implies|seqeq|cat|sub|val|u16|u32|forall|exists|suffix|within|fresh|disjoint|same|isnil|sigvalid|ishash)\(`)

// renamePrelude gives the ghost vocabulary collision-free names in the
// generated Go (contracts are written with the short names).
func renamePrelude(s string) string {
	for i := 0; i < 2; i++ { // twice: adjacent matches share a delimiter
		s = preludeRe.ReplaceAllString(s, "${1}gvc_${2}(")
	}
	return s
}
