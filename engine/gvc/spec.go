package gvc

// SpecFile: parsed //@ contract file of one package (filled in below).
type SpecFile struct {
	Path string
	Pkg  string
	src  string
}

func ParseSpecFile(path string) (*SpecFile, error) { return &SpecFile{Path: path}, nil }
func (s *SpecFile) GoSource() string                { return s.src }
