package gvc

import (
	"go/types"

	"golang.org/x/tools/go/ssa"
)

type mapEntry struct {
	K, V Val
}

// MapState is the content of a map built on this path (immutable; copied on
// update).
type MapState struct {
	Entries []mapEntry
	Global  string // non-empty: stored in this package-level variable
	Opaque  bool   // content unknown (havocked)
}

func (u *Unit) mapUpdate(st *State, fr *Frame, in *ssa.MapUpdate, m MapV) {
	if m.Opaque || m.ID == 0 {
		if m.ID == 0 && !m.Opaque {
			u.safety(st, fr, in.Pos(), "assignment to entry in nil map", TFalse)
		}
		return
	}
	ms := st.maps[m.ID]
	if ms != nil && ms.Opaque {
		return
	}
	var n MapState
	if ms != nil {
		n = MapState{Entries: append(ms.Entries[:len(ms.Entries):len(ms.Entries)], mapEntry{}), Global: ms.Global}
	} else {
		n = MapState{Entries: make([]mapEntry, 1)}
	}
	n.Entries[len(n.Entries)-1] = mapEntry{K: u.get(st, fr, in.Key), V: u.get(st, fr, in.Value)}
	if n.Global != "" && !u.inInit {
		st.written = true
		u.check(st, u.oblName(fr.fn, "frame", "write to package-level map "+n.Global), "frame", TFalse, "package-level table is written")
	}
	st.maps[m.ID] = &n
}

func (u *Unit) localMapLookup(st *State, m MapV, key Val, vt types.Type) *mapHit {
	if m.Opaque {
		return nil
	}
	ms := st.maps[m.ID]
	if ms == nil {
		return &mapHit{v: u.zeroVal(vt), ok: TFalse}
	}
	if ms.Opaque {
		return nil
	}
	val := u.zeroVal(vt)
	ok := TFalse
	for _, e := range ms.Entries {
		c := u.equal(st, key, e.K, nil)
		val = u.mergeVal(c, e.V, val)
		ok = Or(c, ok)
	}
	return &mapHit{v: val, ok: ok}
}

func (u *Unit) tableLookup(st *State, g *ssa.Global, key Val, vt types.Type) (Val, *Term) {
	return u.freshVal(st, vt, "tbl", false), u.newBool("tblok")
}
