package gvc

import (
	"fmt"
	"go/types"
	"math/big"
	"os"
	"path/filepath"
	"regexp"
	"sort"
	"strings"
	"time"

	"golang.org/x/tools/go/ssa"
)

var bigOne = big.NewInt(1)

var identRe = regexp.MustCompile(`[A-Za-z_][A-Za-z0-9_.]*![0-9]+`)

// MaxLen is the assumed upper bound of every existing slice/string length and
// capacity (1 TiB; assumption A-LEN in the evidence).  MaxAlloc is the size
// beyond which make() panics on amd64 (2^47 bytes of user address space).
var MaxLen = new(big.Int).Lsh(big.NewInt(1), 40)
var MaxAlloc = new(big.Int).Lsh(big.NewInt(1), 47)

// Obligation is one named proof obligation, aggregated over all paths on which
// it arises.
type Obligation struct {
	Name      string            `json:"name"`
	Kind      string            `json:"kind"`
	Func      string            `json:"func"`
	Pos       string            `json:"pos,omitempty"`
	Text      string            `json:"text,omitempty"`
	Status    string            `json:"status"` // proved | failed | unknown
	Solver    string            `json:"solver,omitempty"`
	Instances int               `json:"instances"`
	Trivial   int               `json:"trivial"` // instances discharged by constant folding
	TimeS     float64           `json:"time_s"`
	Model     map[string]string `json:"model,omitempty"`
	Script    string            `json:"-"`
	Props     []string          `json:"props,omitempty"`
	Bounded   bool              `json:"bounded,omitempty"`
	Trace     []string          `json:"trace,omitempty"`
	Replay    *ReplaySpec       `json:"replay,omitempty"`
	ClauseFunc string           `json:"clause_func,omitempty"`
}

// Config of one unit run.
type Config struct {
	FrameSummary bool // C18: one summary frame obligation per unit
	Z3Alt string // second solver tried on a standalone script the first one does not decide
	AutoConcrete int // unannotated loops with a constant trip count up to this value are unrolled
	InlineOnPreFail bool // a callee whose precondition cannot be proved is executed from its body instead (C20: values outside every invariant)
	MaxPaths     int
	MaxDepth     int
	RegionHints  bool // decide block coincidences with the solver when a region is resolved
	UnitSec      int // wall-clock limit per unit
	QueryMs      int
	FeasMs       int // time limit of feasibility checks (unknown counts as feasible)
	MaxUnroll    int  // default bound for loops without annotation
	ForceBounded int  // >0: treat every loop as bounded N (bounded stand-in mode)
	QuickLoopCap int  // >0: "unroll N" loops with N above the cap become "bounded cap" (quick tier)
	Safety       bool // generate safety obligations
	FrameCheck   bool // generate frame obligations (stores into pre-existing memory)
	Z3           string
	Verbose      bool
	WantModel    bool
	InlineAcross bool // inline /repo callees of other packages lacking a contract
	NoContracts  map[string]bool
}

func DefaultConfig() Config {
	return Config{MaxPaths: 4000, MaxDepth: 14, QueryMs: 10000, FeasMs: 150, UnitSec: 400, MaxUnroll: 3, Safety: true, Z3: "z3-new", Z3Alt: "z3", WantModel: true, InlineAcross: true, AutoConcrete: 4}
}

// Unit is the verification of one target function (or lemma).
type Unit struct {
	P      *Program
	S      *Solver
	Cfg    Config
	Target *ssa.Function
	Name   string

	nfresh   int
	ncell    int
	nlist    int
	nmap     int
	Obls     map[string]*Obligation
	oblOrder []string
	Paths    int
	Returns  int
	Limits   []string // engine limits hit (obligations then undecided)
	Assumed  map[string]int
	Inlined  map[string]int
	UsedContracts map[string]int
	Bounded  []string

	alloc0   *Term
	cellIdx  map[string]*Cell
	inputs   []InputLeaf
	srcText  map[*ssa.Function]map[int]string
	nameSeen map[string]map[string]int
	loops    map[*ssa.Function]*loopInfo
	start    time.Time
	curFn    []*ssa.Function
	frames   []*Frame
	specMode int
	uf       map[string]bool
	binder   int
	nq       int
	nframe   int
	pureDepth int
	aborted  bool
	litArr   map[string]*Term
	ctxBase  *Term
	noNilMerge bool
	NAssumeCalls int
	inInit   bool
	argFreeOnly bool
	SkippedMethods map[string]bool
	MethodRuns map[string]int
	LinearAppends int
	Standalone int
	cellByID map[int]*Cell
	divMemo  map[string]divEntry
	wreads   []readRec
	witnessMode int
	instBudget  int // instantiations left for the witness being processed
	seqFacts []*seqFact
	sigLog   []*sigEntry
	hashLog  []*hashEntry
	StoresSeen int
	curMethod string
	shapesSeen map[string]bool
	ErrorReturns int
	kfMemo   map[string]kfEntry
	algOfType map[string]*Term
	objOwner map[string]IfaceV
	seqByName map[string]*seqFact
	goalMode int
	reads    map[string][]readRec
	instDepth int
	Instances int
	readMemo map[string]divEntry
	blkInfo  map[string]blkMeta
	ifBase   map[string]*Term
	ifBound  map[string]*Term
	paramVals []Val
	inputArr map[string]*Term
	symIdxCells map[int]*ListObj
	HavocLoops map[string]int
	HavocAll int
	Vacuous  []string
	TrivialSafety int
	initCells int
	nerr     int
}

// blkMeta: where an unknown block term (slice returned by a contract call)
// came from: the allocation watermark before the call and how many regions
// existed then.
type blkMeta struct {
	base  *Term
	epoch int
}

type divEntry struct {
	q, r  *Term
	scope int
}

// InputLeaf records a symbolic input for model extraction.
type InputLeaf struct {
	Name string
	Kind string // int | bool | bytes | str
	T    *Term  // scalar
	Len  *Term
	Arr  *Term
	Off  *Term
	Cap  *Term
	Blk  *Term
	Type string
}

func NewUnit(p *Program, target *ssa.Function, cfg Config) *Unit {
	u := &Unit{P: p, Cfg: cfg, Target: target, Name: FuncName(target)}
	u.Obls = map[string]*Obligation{}
	u.Assumed = map[string]int{}
	u.Inlined = map[string]int{}
	u.UsedContracts = map[string]int{}
	u.cellIdx = map[string]*Cell{}
	u.srcText = map[*ssa.Function]map[int]string{}
	u.nameSeen = map[string]map[string]int{}
	u.loops = map[*ssa.Function]*loopInfo{}
	u.uf = map[string]bool{}
	u.litArr = map[string]*Term{}
	u.cellByID = map[int]*Cell{}
	u.SkippedMethods = map[string]bool{}
	u.MethodRuns = map[string]int{}
	u.divMemo = map[string]divEntry{}
	u.readMemo = map[string]divEntry{}
	u.blkInfo = map[string]blkMeta{}
	u.ifBase = map[string]*Term{}
	u.ifBound = map[string]*Term{}
	u.inputArr = map[string]*Term{}
	u.symIdxCells = map[int]*ListObj{}
	u.HavocLoops = map[string]int{}
	u.S = NewSolver(cfg.Z3, cfg.QueryMs)
	u.start = time.Now()
	return u
}

func (u *Unit) Close() { u.S.Close() }

func (u *Unit) limit(format string, a ...interface{}) {
	m := fmt.Sprintf(format, a...)
	for _, x := range u.Limits {
		if x == m {
			return
		}
	}
	u.Limits = append(u.Limits, m)
}

func (u *Unit) freshName(prefix string) string {
	u.nfresh++
	prefix = sanitize(prefix)
	return fmt.Sprintf("%s!%d", prefix, u.nfresh)
}

func sanitize(s string) string {
	var sb strings.Builder
	for _, r := range s {
		switch {
		case r >= 'a' && r <= 'z', r >= 'A' && r <= 'Z', r >= '0' && r <= '9', r == '_', r == '.':
			sb.WriteRune(r)
		default:
			sb.WriteByte('_')
		}
	}
	if sb.Len() == 0 {
		return "v"
	}
	return sb.String()
}

func (u *Unit) newConst(prefix string, s Sort) *Term {
	n := u.freshName(prefix)
	u.S.Declare(n, s)
	return Const(n, s)
}

func (u *Unit) newInt(prefix string) *Term  { return u.newConst(prefix, SInt) }
func (u *Unit) newBool(prefix string) *Term { return u.newConst(prefix, SBool) }
// newArr: a fresh uninterpreted byte array.  Reads go through the unit so that
// the sequence-equality facts known about the array are instantiated at the
// index being read (executor-side E-matching; the queries stay quantifier-free).
func (u *Unit) newArr(prefix string) *Term {
	c := u.newConst(prefix, SArr)
	name := c.S
	t := &Term{S: name, Sort: SArr, Base: name}
	t.Fn = func(idx *Term) *Term {
		r := app(SInt, "select", c, idx)
		u.onRead(name, idx, r)
		return r
	}
	return t
}

type readRec struct {
	base     string
	idx, val *Term
	scope    int
}

// onRead is called for every read of a base (uninterpreted) array.  Only
// reads made while a witness index is being evaluated (witnessMode) matter:
// each named sequence equality that mentions the array is instantiated at the
// position being read (executor-side E-matching, restricted to the indices a
// refutation of "the sequences differ at wk" can need).
func (u *Unit) onRead(base string, idx *Term, val *Term) {
	if u.witnessMode == 0 || u.binder > 0 {
		return
	}
	rk := "wread:" + base + "@" + idx.S
	if e, ok := u.readMemo[rk]; ok && u.S.Alive(e.scope) {
		return
	}
	u.readMemo[rk] = divEntry{q: TTrue, scope: u.S.ScopeID()}
	r := readRec{base: base, idx: idx, val: val, scope: u.S.ScopeID()}
	u.wreads = append(u.wreads, r)
	if u.instDepth >= 5 {
		return
	}
	for _, f := range append([]*seqFact(nil), u.seqFacts...) {
		if u.S.Alive(f.scope) {
			u.instAtRead(f, r)
		}
	}
}

// instAtRead: fact f says a1[o1+k] == a2[o2+k] for 0 <= k < l; the read r is
// a1[idx] (or a2[idx]): instantiate k := idx - o1.
func (u *Unit) instAtRead(f *seqFact, r readRec) {
	for side := 0; side < 2; side++ {
		a, o, b, ob := f.a1, f.o1, f.a2, f.o2
		if side == 1 {
			a, o, b, ob = f.a2, f.o2, f.a1, f.o1
		}
		if a.Base == "" || a.Base != r.base {
			continue
		}
		if u.instBudget <= 0 {
			return
		}
		key := fmt.Sprintf("winst:%s:%d@%s", f.e.S, side, r.idx.S)
		if e, ok := u.readMemo[key]; ok && u.S.Alive(e.scope) {
			continue
		}
		u.readMemo[key] = divEntry{q: TTrue, scope: u.S.ScopeID()}
		k := Sub(r.idx, o)
		u.instDepth++
		other := Select(b, Add(ob, k))
		u.instDepth--
		u.S.Assert(Implies(And(f.e, Le(IntLit(0), k), Lt(k, f.l)), Eq(r.val, other)))
		u.Instances++
		u.instBudget--
	}
}

func (u *Unit) declareUF(name string, args []Sort, res Sort) {
	if u.uf[name] {
		return
	}
	u.uf[name] = true
	u.S.DeclareFun(name, args, res)
}

// name replaces a large term by a defined constant.
func (u *Unit) name(t *Term, prefix string) *Term {
	if len(t.S) < 160 || t.IsInt || t.IsBool || u.binder > 0 {
		return t
	}
	if t.Sort == SArr {
		return t // array terms are always introduced through defArr
	}
	c := u.newConst(prefix, t.Sort)
	u.S.Assert(Eq(c, t))
	return c
}



// byteFact records 0 <= b <= 255 for a byte read from an array.
func (u *Unit) byteFact(b *Term) {
	if u.binder > 0 {
		return
	}
	u.S.Assert(And(Le(IntLit(0), b), Le(b, IntLit(255))))
}

// nameShort names every term longer than a few tokens (not inside binders).
func (u *Unit) nameShort(t *Term, prefix string) *Term {
	if len(t.S) < 40 || t.IsInt || t.IsBool || u.binder > 0 || t.Sort == SArr {
		return t
	}
	c := u.newConst(prefix, t.Sort)
	u.S.Assert(Eq(c, t))
	lo, hi := bounds(t)
	return WithBounds(c, lo, hi)
}

// mkArr builds a derived array; the index of every read is named first so
// that expansions through long write histories stay linear in size.
func (u *Unit) mkArr(fn func(idx *Term) *Term) *Term {
	id := fmt.Sprintf("<arr#%d>", nextArr())
	return &Term{S: id, Sort: SArr, Fn: func(idx *Term) *Term {
		if u.binder > 0 {
			// under a quantifier nothing can be named by a constant: the array
			// gets a function symbol with a (patterned) defining axiom instead,
			// so that reads through long write histories stay small
			fkey := id + "@fn"
			if e, ok := u.readMemo[fkey]; ok && u.S.Alive(e.scope) {
				return App(SInt, e.q.S, idx)
			}
			fname := u.freshName("A")
			u.S.DeclareFun(fname, []Sort{SInt}, SInt)
			u.readMemo[fkey] = divEntry{q: Const(fname, SInt), scope: u.S.ScopeID()}
			u.nq++
			kv := fmt.Sprintf("a%d", u.nq)
			body := fn(Const(kv, SInt))
			ax := &Term{S: fmt.Sprintf("(forall ((%s Int)) (! (= (%s %s) %s) :pattern ((%s %s))))", kv, fname, kv, body.S, fname, kv), Sort: SBool}
			u.S.Assert(ax)
			return App(SInt, fname, idx)
		}
		if len(idx.S) > 48 && !idx.IsInt {
			c := u.newConst("ix", SInt)
			u.S.Assert(Eq(c, idx))
			lo, hi := bounds(idx)
			idx = WithBounds(c, lo, hi)
		}
		// reads are memoised per (array, index) while the scope that defined
		// them is open: expansions through stacked write histories stay a DAG
		key := id + "@" + idx.S
		if e, ok := u.readMemo[key]; ok && u.S.Alive(e.scope) {
			return e.q
		}
		v := fn(idx)
		if len(v.S) > 64 && !v.IsInt {
			c := u.newConst("rd", SInt)
			u.S.Assert(Eq(c, v))
			lo, hi := bounds(v)
			v = WithBounds(c, lo, hi)
		}
		u.readMemo[key] = divEntry{q: v, scope: u.S.ScopeID()}
		return v
	}}
}

// provable: does cond follow from the current path condition?
func (u *Unit) provable(cond *Term) bool {
	if cond.IsBool {
		return cond.B
	}
	u.S.Push()
	u.S.Assert(Not(cond))
	r := u.S.CheckSatT(u.Cfg.FeasMs)
	u.S.Pop()
	return r == "unsat"
}

func (u *Unit) assume(t *Term) {
	if u.binder > 0 {
		u.limit("side condition inside a quantifier body dropped")
		return
	}
	u.S.Assert(t)
	u.activateWitnesses(t)
}

// feasible: can cond hold on the current path?  unknown counts as feasible.
func (u *Unit) feasible(cond *Term) bool {
	if cond.IsBool {
		return cond.B
	}
	u.S.Push()
	u.S.Assert(cond)
	r := u.S.CheckSatT(u.Cfg.FeasMs)
	if r == "unknown" {
		// the incremental core gives up early; a fresh process with full
		// preprocessing usually decides the same query in milliseconds
		r2, _ := RunScript(u.Cfg.Z3, u.S.Script(nil, "z3"), 2*time.Second)
		u.Standalone++
		r = r2
	}
	u.S.Pop()
	return r != "unsat"
}

// pathFeasible: is the current path condition satisfiable at all?
func (u *Unit) pathFeasible() bool {
	r := u.S.CheckSatT(u.Cfg.FeasMs)
	if r == "unknown" {
		r, _ = RunScript(u.Cfg.Z3, u.S.Script(nil, "z3"), 2*time.Second)
		u.Standalone++
	}
	return r != "unsat"
}

func (u *Unit) obl(name, kind string) *Obligation {
	o := u.Obls[name]
	if o == nil {
		o = &Obligation{Name: name, Kind: kind, Status: "proved"}
		u.Obls[name] = o
		u.oblOrder = append(u.oblOrder, name)
	}
	return o
}

// check records one instance of the named obligation: goal must hold on the
// current path.  After a failure the goal is assumed so that one defect is
// reported once.
func (u *Unit) check(st *State, name, kind string, goal *Term, text string) bool {
	o := u.obl(name, kind)
	o.Instances++
	if o.Text == "" {
		o.Text = text
	}
	if len(u.curFn) > 0 && o.Func == "" {
		o.Func = FuncName(u.curFn[len(u.curFn)-1])
	}
	if goal.IsBool && goal.B {
		o.Trivial++
		return true
	}
	if o.Status != "proved" && kind != "frame" {
		// already not discharged on another path: no need to pay the solver
		// again; continue as if it held so that one defect is reported once
		u.assume(goal)
		return false
	}
	t0 := time.Now()
	var want []string
	if o.Status == "proved" && u.Cfg.WantModel {
		for _, l := range u.inputs {
			switch l.Kind {
			case "int", "bool":
				want = append(want, l.T.S)
			case "bytes", "str", "list":
				want = append(want, l.Len.S)
				if l.Off != nil {
					want = append(want, l.Off.S, l.Cap.S, l.Blk.S)
				}
			}
		}
		if len(want) > 60 {
			want = want[:60]
		}
		seen := map[string]bool{}
		for _, id := range identRe.FindAllString(goal.S, -1) {
			if !seen[id] && len(seen) < 24 {
				seen[id] = true
				want = append(want, id)
			}
		}
	}
	var r string
	var model map[string]string
	if u.S.HasDeferred() && !strings.Contains(goal.S, "(forall ") {
		// first without the quantified hypotheses
		if rq := u.S.CheckGoalQF(goal, 1200); rq == "unsat" {
			if o.Solver == "" {
				o.Solver = u.Cfg.Z3 + " (incremental)"
			}
			o.TimeS += time.Since(t0).Seconds()
			return true
		}
	}
	if len(goal.Conj) > 1 && len(goal.Conj) <= 64 {
		// a conjunction is proved conjunct by conjunct (earlier ones assumed)
		r = "unsat"
		u.S.Push()
		for _, cj := range goal.Conj {
			rr, mm := u.S.CheckGoalT(cj, want, 2500)
			if rr == "unknown" {
				sc := u.S.Script(cj, "z3")
				rr, _ = RunScript(u.Cfg.Z3, sc, time.Duration(u.Cfg.QueryMs)*time.Millisecond)
				u.Standalone++
				if rr == "unsat" && o.Solver == "" {
					o.Solver = u.Cfg.Z3 + " (standalone)"
				}
				if rr != "unsat" && rr != "sat" && u.Cfg.Z3Alt != "" {
					// second opinion: the other solver version decides many
					// quantified goals the first one times out on
					rr, _ = RunScript(u.Cfg.Z3Alt, sc, time.Duration(u.Cfg.QueryMs)*time.Millisecond)
					u.Standalone++
					if rr == "unsat" && o.Solver == "" {
						o.Solver = u.Cfg.Z3Alt + " (standalone)"
					}
				}
			}
			if rr != "unsat" {
				r, model = rr, mm
				goal = cj
				break
			}
			u.S.Assert(cj)
		}
		u.S.Pop()
	} else {
		r, model = u.S.CheckGoalT(goal, want, 2500)
	}
	if r == "unknown" && len(goal.Conj) <= 1 {
		sc := u.S.Script(goal, "z3")
		r2, _ := RunScript(u.Cfg.Z3, sc, time.Duration(u.Cfg.QueryMs)*time.Millisecond)
		u.Standalone++
		who := u.Cfg.Z3
		if r2 != "unsat" && r2 != "sat" && u.Cfg.Z3Alt != "" {
			r2, _ = RunScript(u.Cfg.Z3Alt, sc, time.Duration(u.Cfg.QueryMs)*time.Millisecond)
			u.Standalone++
			who = u.Cfg.Z3Alt
		}
		if r2 == "unsat" {
			r = "unsat"
			if o.Solver == "" {
				o.Solver = who + " (standalone)"
			}
		} else if r2 == "sat" {
			r = "sat"
		}
	}
	o.TimeS += time.Since(t0).Seconds()
	if r == "sat" && model != nil && o.Model == nil {
		o.Model = model
	}
	if r == "unsat" {
		if o.Solver == "" {
			o.Solver = u.Cfg.Z3 + " (incremental)"
		}
		return true
	}
	// not proved on this path: keep the standalone script of the first failure
	if o.Status == "proved" || (o.Status == "unknown" && r == "sat") {
		o.Script = u.S.Script(goal, "z3")
		o.Trace = append([]string(nil), st.trace...)
		u.snapshotReplay(st, o)
		if d := os.Getenv("GVC_DUMP_FAIL"); d != "" {
			os.WriteFile(filepath.Join(d, sanitize(name)[:min(len(sanitize(name)), 80)]+".smt2"), []byte(o.Script), 0o644)
		}
	}
	if r == "sat" {
		o.Status = "failed"
	} else if o.Status != "failed" {
		o.Status = "unknown"
	}
	if u.Cfg.Verbose {
		fmt.Printf("  [%s] %s: %s\n", r, name, goal.S)
	}
	if kind != "frame" {
		// one defect is reported once: continue as if the obligation held.
		// (Not for frame obligations: the write did happen, and what it
		// aliases matters to the obligations that follow.)
		u.assume(goal)
	}
	return false
}

// Results returns obligations in order of first appearance.
func (u *Unit) Results() []*Obligation {
	var out []*Obligation
	for _, n := range u.oblOrder {
		out = append(out, u.Obls[n])
	}
	return out
}

// obligation naming -----------------------------------------------------------

func (u *Unit) oblName(fn *ssa.Function, kind, text string) string {
	text = strings.Join(strings.Fields(text), " ")
	if len(text) > 90 {
		text = text[:90]
	}
	return fmt.Sprintf("%s#%s:%s", FuncName(fn), kind, text)
}

// misc ------------------------------------------------------------------------

func typeString(t types.Type) string {
	return types.TypeString(t, func(p *types.Package) string { return p.Name() })
}

func sortedCounts(m map[string]int) []string {
	var ks []string
	for k := range m {
		ks = append(ks, k)
	}
	sort.Strings(ks)
	return ks
}
