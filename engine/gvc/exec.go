package gvc

import (
	"fmt"
	"go/constant"
	"go/token"
	"go/types"
	"math/big"
	"strings"
	"time"

	"golang.org/x/tools/go/ssa"
)

// Frame holds the SSA registers of one activation.  Registers are shared
// between the paths forked inside the activation (DFS order makes that safe:
// a path only reads registers it defined itself or that were defined before
// the fork); all mutable memory lives in State, which is cloned at forks.
type Frame struct {
	id    int
	fn    *ssa.Function
	regs  map[ssa.Value]Val
	depth int
}

type Kont func(st *State, res Val)

type stopPath struct{}

func (u *Unit) get(st *State, fr *Frame, v ssa.Value) Val {
	switch x := v.(type) {
	case *ssa.Const:
		return u.constVal(st, x)
	case *ssa.Global:
		return u.globalPtr(x)
	case *ssa.Function:
		return FuncV{Fn: x}
	case *ssa.Builtin:
		return FuncV{B: x}
	}
	r, ok := fr.regs[v]
	if !ok {
		panic(fmt.Sprintf("gvc: undefined register %s in %s", v.Name(), fr.fn))
	}
	return r
}

func (u *Unit) globalPtr(g *ssa.Global) PtrV {
	et := g.Type().(*types.Pointer).Elem()
	sym := g.Pkg == nil || !strings.HasPrefix(g.Pkg.Pkg.Path(), ModPath)
	c := u.keyedCell("g:"+g.String(), et, sym, true)
	return PtrV{Nil: TFalse, Cell: c, Elem: et}
}

func (u *Unit) constVal(st *State, c *ssa.Const) Val {
	t := c.Type()
	if c.Value == nil {
		return u.zeroVal(t)
	}
	switch b := t.Underlying().(type) {
	case *types.Basic:
		switch {
		case b.Info()&types.IsInteger != 0:
			if i, ok := constant.Val(constant.ToInt(c.Value)).(*big.Int); ok {
				return BigLit(i)
			}
			if i, ok := constant.Int64Val(constant.ToInt(c.Value)); ok {
				return IntLit(i)
			}
			u, _ := constant.Uint64Val(constant.ToInt(c.Value))
			return BigLit(new(big.Int).SetUint64(u))
		case b.Info()&types.IsBoolean != 0:
			return BoolLit(constant.BoolVal(c.Value))
		case b.Info()&types.IsString != 0:
			return u.strLit(constant.StringVal(c.Value))
		case b.Info()&types.IsFloat != 0:
			return OpaqueV{ID: IntLit(0), T: t}
		}
	}
	return u.zeroVal(t)
}

func (u *Unit) strLit(s string) StrV {
	// contents as a chain of stores over the zero array (short) or opaque (long)
	var arr *Term
	if len(s) <= 80 {
		lit := s
		arr = u.mkArr(func(i *Term) *Term {
			if i.IsInt {
				k := i.I.Int64()
				if i.I.IsInt64() && k >= 0 && k < int64(len(lit)) {
					return IntLit(int64(lit[k]))
				}
				return IntLit(0)
			}
			v := IntLit(0)
			for k := len(lit) - 1; k >= 0; k-- {
				v = Ite(Eq(i, IntLit(int64(k))), IntLit(int64(lit[k])), v)
			}
			return v
		})
	} else {
		key := "strlit:" + s
		if c, ok := u.litArr[key]; ok {
			arr = c
		} else {
			arr = u.newArr("lit")
			u.litArr[key] = arr
		}
	}
	return StrV{Arr: arr, Len: IntLit(int64(len(s))), IsLit: true, Lit: s}
}

// ---------------------------------------------------------------- running

func (u *Unit) runFunc(st *State, fn *ssa.Function, args []Val, bind []Val, depth int, k Kont) {
	if fn.Blocks == nil {
		panic("runFunc: no body for " + fn.String())
	}
	u.nframe++
	fr := &Frame{id: u.nframe, fn: fn, regs: map[ssa.Value]Val{}, depth: depth}
	for i, p := range fn.Params {
		fr.regs[p] = args[i]
	}
	for i, fv := range fn.FreeVars {
		fr.regs[fv] = bind[i]
	}
	// (the stacks are copied, never truncated in place: continuations append)
	outerFn := append([]*ssa.Function(nil), u.curFn...)
	outerFr := append([]*Frame(nil), u.frames...)
	u.curFn = append(append([]*ssa.Function(nil), outerFn...), fn)
	u.frames = append(append([]*Frame(nil), outerFr...), fr)
	innerFn, innerFr := u.curFn, u.frames
	k2 := func(st2 *State, res Val) {
		u.curFn = append([]*ssa.Function(nil), outerFn...)
		u.frames = append([]*Frame(nil), outerFr...)
		k(st2, res)
		u.curFn = innerFn
		u.frames = innerFr
	}
	u.runBlock(st, fr, fn.Blocks[0], nil, k2)
	u.curFn = outerFn
	u.frames = outerFr
}

func (u *Unit) overBudget() bool {
	if u.aborted {
		return true
	}
	if time.Since(u.start) > time.Duration(u.Cfg.UnitSec)*time.Second {
		u.limit("path cap: unit time limit %ds exceeded", u.Cfg.UnitSec)
		u.aborted = true
		return true
	}
	if u.Paths > u.Cfg.MaxPaths {
		u.limit("path cap %d exceeded", u.Cfg.MaxPaths)
		u.aborted = true
		return true
	}
	return false
}

func (u *Unit) runBlock(st *State, fr *Frame, b *ssa.BasicBlock, pred *ssa.BasicBlock, k Kont) {
	if u.overBudget() {
		return
	}
	// loop header handling
	if li := u.loopsOf(fr.fn); li != nil {
		if lp := li.byHeader[b]; lp != nil {
			if u.atLoopHeader(st, fr, lp, b, pred, k) {
				return
			}
		}
	}
	u.enterBlock(st, fr, b, pred, k)
}

func (u *Unit) enterBlock(st *State, fr *Frame, b *ssa.BasicBlock, pred *ssa.BasicBlock, k Kont) {
	// phis (simultaneous assignment)
	if pred != nil {
		idx := -1
		for i, p := range b.Preds {
			if p == pred {
				idx = i
				break
			}
		}
		var vals []Val
		var phis []*ssa.Phi
		for _, in := range b.Instrs {
			ph, ok := in.(*ssa.Phi)
			if !ok {
				break
			}
			phis = append(phis, ph)
			vals = append(vals, u.get(st, fr, ph.Edges[idx]))
		}
		for i, ph := range phis {
			fr.regs[ph] = vals[i]
		}
	}
	i := 0
	for i < len(b.Instrs) {
		if _, ok := b.Instrs[i].(*ssa.Phi); !ok {
			break
		}
		i++
	}
	u.runInstrs(st, fr, b, i, k)
}

func (u *Unit) runInstrs(st *State, fr *Frame, b *ssa.BasicBlock, i int, k Kont) {
	for ; i < len(b.Instrs); i++ {
		if st.dead || u.aborted {
			return
		}
		switch in := b.Instrs[i].(type) {
		case *ssa.DebugRef:
			continue
		case *ssa.Call:
			next := i + 1
			u.doCall(st, fr, in, func(st2 *State, res Val) {
				fr.regs[in] = res
				u.runInstrs(st2, fr, b, next, k)
			})
			return
		case *ssa.If:
			u.doIf(st, fr, b, in, k)
			return
		case *ssa.Jump:
			u.runBlock(st, fr, b.Succs[0], b, k)
			return
		case *ssa.Return:
			u.Returns++
			switch len(in.Results) {
			case 0:
				k(st, nil)
			case 1:
				k(st, u.get(st, fr, in.Results[0]))
			default:
				e := make([]Val, len(in.Results))
				for j, r := range in.Results {
					e[j] = u.get(st, fr, r)
				}
				k(st, TupleV{E: e})
			}
			return
		case *ssa.Panic:
			if u.specMode == 0 && u.Cfg.Safety {
				u.check(st, u.oblName(fr.fn, "safety", "panic "+u.srcAt(fr.fn, in.Pos(), "panic")), "safety", TFalse, "explicit panic is unreachable")
			}
			return
		case *ssa.Go, *ssa.Defer, *ssa.RunDefers, *ssa.Send, *ssa.Select:
			u.limit("unsupported instruction %T in %s", in, FuncName(fr.fn))
			u.aborted = true
			return
		default:
			u.step(st, fr, in)
		}
	}
}

func (u *Unit) doIf(st *State, fr *Frame, b *ssa.BasicBlock, in *ssa.If, k Kont) {
	c := u.get(st, fr, in.Cond).(*Term)
	if c.IsBool {
		if c.B {
			u.runBlock(st, fr, b.Succs[0], b, k)
		} else {
			u.runBlock(st, fr, b.Succs[1], b, k)
		}
		return
	}
	tf := u.feasible(c)
	ff := true
	if tf {
		ff = u.feasible(Not(c))
	}
	switch {
	case tf && ff:
		u.Paths++
		st2 := st.Clone()
		snap := u.snapshotFrames()
		u.S.Push()
		u.assume(c)
		u.runBlock(st, fr, b.Succs[0], b, k)
		u.S.Pop()
		if u.overBudget() {
			return
		}
		u.restoreFrames(snap)
		u.S.Push()
		u.assume(Not(c))
		u.runBlock(st2, fr, b.Succs[1], b, k)
		u.S.Pop()
	case tf:
		u.assume(c)
		u.runBlock(st, fr, b.Succs[0], b, k)
	default:
		u.assume(Not(c))
		u.runBlock(st, fr, b.Succs[1], b, k)
	}
}

// fork runs k on both outcomes of cond (when feasible).
func (u *Unit) fork(st *State, cond *Term, k func(st *State, taken bool)) {
	if cond.IsBool {
		k(st, cond.B)
		return
	}
	tf := u.feasible(cond)
	ff := true
	if tf {
		ff = u.feasible(Not(cond))
	}
	switch {
	case tf && ff:
		u.Paths++
		st2 := st.Clone()
		snap := u.snapshotFrames()
		u.S.Push()
		u.assume(cond)
		k(st, true)
		u.S.Pop()
		if u.overBudget() {
			return
		}
		u.restoreFrames(snap)
		u.S.Push()
		u.assume(Not(cond))
		k(st2, false)
		u.S.Pop()
	case tf:
		u.assume(cond)
		k(st, true)
	default:
		u.assume(Not(cond))
		k(st, false)
	}
}

// safety emits a safety obligation for the instruction at pos.
func (u *Unit) safety(st *State, fr *Frame, pos token.Pos, what string, goal *Term) {
	if u.specMode > 0 || !u.Cfg.Safety {
		return
	}
	if !InRepo(fr.fn) && !u.isSpecFile(fr.fn) {
		return // code of a dependency executed from its SSA: assumed not to panic
	}
	if goal.IsBool && goal.B {
		u.TrivialSafety++ // discharged by constant folding (e.g. dereference of a fresh local)
		return
	}
	u.check(st, u.oblName(fr.fn, "safety", what+" "+u.srcAt(fr.fn, pos, "")), "safety", goal, what)
}

// ---------------------------------------------------------------- instructions

func (u *Unit) step(st *State, fr *Frame, instr ssa.Instruction) {
	switch in := instr.(type) {
	case *ssa.Alloc:
		et := in.Type().(*types.Pointer).Elem()
		c := u.newCell(et, false, false, in.Comment)
		fr.regs[in] = PtrV{Nil: TFalse, Cell: c, Elem: et}
	case *ssa.BinOp:
		fr.regs[in] = u.binop(st, fr, in)
	case *ssa.UnOp:
		fr.regs[in] = u.unop(st, fr, in)
	case *ssa.Store:
		sv := u.get(st, fr, in.Val)
		u.escape(st, sv)
		u.store(st, fr, in.Pos(), u.get(st, fr, in.Addr).(PtrV), sv)
	case *ssa.FieldAddr:
		p := u.get(st, fr, in.X).(PtrV)
		u.safety(st, fr, in.Pos(), "nil dereference (field)", Not(p.Nil))
		st0 := in.X.Type().Underlying().(*types.Pointer).Elem().Underlying().(*types.Struct)
		ft := st0.Field(in.Field).Type()
		if p.Cell == nil {
			// definitely nil: value is irrelevant after the failed obligation
			// (in specifications: the zero value)
			fr.regs[in] = PtrV{Nil: TFalse, Cell: u.newCell(ft, u.specMode == 0, false, "afternil"), Elem: ft}
			return
		}
		np := PtrV{Nil: TFalse, Cell: p.Cell, Path: append(append([]int(nil), p.Path...), in.Field), Elem: ft}
		if u.specMode > 0 && !u.noNilMerge {
			np.Nil = p.Nil // totality: a field of a nil struct pointer reads as zero
		}
		fr.regs[in] = np
	case *ssa.Field:
		v := u.get(st, fr, in.X)
		fr.regs[in] = u.project(st, v, in.Field)
	case *ssa.IndexAddr:
		fr.regs[in] = u.indexAddr(st, fr, in)
	case *ssa.Index:
		fr.regs[in] = u.index(st, fr, in)
	case *ssa.Slice:
		if xv, ok := u.get(st, fr, in.X).(SliceV); ok {
			u.escape(st, xv)
		}
		fr.regs[in] = u.sliceOp(st, fr, in)
	case *ssa.MakeSlice:
		fr.regs[in] = u.makeSlice(st, fr, in)
	case *ssa.MakeInterface:
		u.escape(st, u.get(st, fr, in.X))
		fr.regs[in] = IfaceV{Nil: TFalse, Dyn: in.X.Type(), V: u.get(st, fr, in.X)}
	case *ssa.ChangeInterface:
		fr.regs[in] = u.get(st, fr, in.X)
	case *ssa.ChangeType:
		v := u.get(st, fr, in.X)
		u.escape(st, v)
		if s, ok := v.(SliceV); ok {
			if sl, ok2 := in.Type().Underlying().(*types.Slice); ok2 {
				s.Elem = sl.Elem()
			}
			v = s
		}
		fr.regs[in] = v
	case *ssa.Convert:
		fr.regs[in] = u.convert(st, fr, in)
	case *ssa.Extract:
		t := u.get(st, fr, in.Tuple).(TupleV)
		fr.regs[in] = t.E[in.Index]
	case *ssa.MakeMap:
		u.nmap++
		fr.regs[in] = MapV{ID: u.nmap}
	case *ssa.MapUpdate:
		m, _ := u.get(st, fr, in.Map).(MapV)
		if m.Global != nil {
			st.written = true
			u.check(st, u.oblName(fr.fn, "frame", "write to package-level map "+m.Global.Name()), "frame", TFalse, "package-level table is written")
		}
		u.mapUpdate(st, fr, in, m)
	case *ssa.Lookup:
		fr.regs[in] = u.lookup(st, fr, in)
	case *ssa.MakeClosure:
		var bind []Val
		for _, b := range in.Bindings {
			bind = append(bind, u.get(st, fr, b))
			u.escape(st, bind[len(bind)-1])
		}
		fr.regs[in] = FuncV{Fn: in.Fn.(*ssa.Function), Bind: bind}
	case *ssa.Range:
		fr.regs[in] = OpaqueV{ID: u.newInt("iter"), T: in.X.Type()}
	case *ssa.Next:
		tt := in.Type().(*types.Tuple)
		e := []Val{u.newBool("next_ok")}
		for j := 1; j < tt.Len(); j++ {
			if tt.At(j).Type() == nil || isInvalid(tt.At(j).Type()) {
				e = append(e, nil)
				continue
			}
			e = append(e, u.freshVal(st, tt.At(j).Type(), "next", false))
		}
		fr.regs[in] = TupleV{E: e}
	case *ssa.TypeAssert:
		fr.regs[in] = u.typeAssert(st, fr, in)
	case *ssa.Phi:
		// handled at block entry
	case *ssa.SliceToArrayPointer, *ssa.MultiConvert, *ssa.MakeChan:
		u.limit("unsupported instruction %T in %s", in, FuncName(fr.fn))
		if v, ok := instr.(ssa.Value); ok {
			fr.regs[v] = u.freshVal(st, v.Type(), "unsup", false)
		}
	default:
		u.limit("unsupported instruction %T in %s", in, FuncName(fr.fn))
		if v, ok := instr.(ssa.Value); ok {
			fr.regs[v] = u.freshVal(st, v.Type(), "unsup", false)
		}
	}
}

func isInvalid(t types.Type) bool {
	b, ok := t.(*types.Basic)
	return ok && b.Kind() == types.Invalid
}

// load through a pointer
func (u *Unit) load(st *State, fr *Frame, pos token.Pos, p PtrV, t types.Type) Val {
	u.safety(st, fr, pos, "nil dereference", Not(p.Nil))
	return u.loadNoCheck(st, p, t)
}

func (u *Unit) loadNoCheck(st *State, p PtrV, t types.Type) Val {
	if u.specMode > 0 && !u.noNilMerge && p.Cell != nil && p.Blk == nil && p.ElemIdx == nil && !(p.Nil.IsBool && !p.Nil.B) && !u.knownFalse(p.Nil) {
		// specifications are total: reading through a nil pointer yields the
		// zero value (so that "fresh(r.f)" holds when r is nil)
		q := p
		q.Nil = TFalse
		return u.mergeVal(p.Nil, u.zeroVal(t), u.loadNoCheck(st, q, t))
	}
	switch {
	case p.Blk != nil:
		r := u.regionOf(st, p.Blk)
		b := WithBounds(Select(r.C, p.Idx), big.NewInt(0), big.NewInt(255))
		u.byteFact(b)
		return b
	case p.Cell == nil:
		if u.specMode > 0 {
			return u.zeroVal(t)
		}
		return u.freshVal(st, t, "nilload", false)
	case p.ElemIdx != nil:
		// element of a byte array inside a cell
		a := u.loadPath(st, PtrV{Cell: p.Cell, Path: p.Path})
		av := a.(ArrV)
		b := WithBounds(Select(av.Arr, p.ElemIdx), big.NewInt(0), big.NewInt(255))
		u.byteFact(b)
		return b
	}
	return u.loadPath(st, p)
}

func (u *Unit) store(st *State, fr *Frame, pos token.Pos, p PtrV, v Val) {
	u.safety(st, fr, pos, "nil dereference (store)", Not(p.Nil))
	switch {
	case p.Blk != nil:
		val := v.(*Term)
		u.writeBytes(st, "", p.Blk, p.Idx, IntLit(1), func(j *Term) *Term { return val }, u.srcAt(fr.fn, pos, "store"))
	case p.Cell == nil:
		return
	case p.ElemIdx != nil:
		// store one byte into a byte array inside a cell
		base := PtrV{Cell: p.Cell, Path: p.Path}
		cur := u.loadCell(st, p.Cell)
		for _, i := range p.Path {
			cur = u.project(st, cur, i)
		}
		if ref, ok := cur.(ArrRefV); ok {
			val := v.(*Term)
			u.writeBytes(st, "", ref.Blk, p.ElemIdx, IntLit(1), func(j *Term) *Term { return val }, u.srcAt(fr.fn, pos, "store"))
			return
		}
		av := cur.(ArrV)
		oldA, ei, nv := av.Arr, p.ElemIdx, v.(*Term)
		na := u.mkArr(func(j *Term) *Term { return Ite(Eq(j, ei), nv, Select(oldA, j)) })
		u.storePath(st, base, ArrV{Arr: na, N: av.N})
	default:
		u.storePath(st, p, v)
	}
}

// The registers of the live activations are path-local: the second branch of a
// fork must not see what the first one wrote (loop phis read their own previous
// value, which a sibling path that iterated further would have overwritten).
type frameSnap struct {
	frames []*Frame
	regs   []map[ssa.Value]Val
}

func (u *Unit) snapshotFrames() frameSnap {
	s := frameSnap{frames: append([]*Frame(nil), u.frames...)}
	for _, f := range s.frames {
		m := make(map[ssa.Value]Val, len(f.regs))
		for k, v := range f.regs {
			m[k] = v
		}
		s.regs = append(s.regs, m)
	}
	return s
}

func (u *Unit) restoreFrames(s frameSnap) {
	for i, f := range s.frames {
		m := make(map[ssa.Value]Val, len(s.regs[i]))
		for k, v := range s.regs[i] {
			m[k] = v
		}
		f.regs = m
	}
}

type kfEntry struct {
	res   bool
	scope int
}

// knownFalse: t cannot hold on the current path (decided by the solver within
// the feasibility budget; cached per solver scope).  Used to keep the total
// semantics of specifications from wrapping every load in "if p == nil".
func (u *Unit) knownFalse(t *Term) bool {
	if t.IsBool {
		return !t.B
	}
	if u.binder > 0 || len(t.S) > 200 {
		return false
	}
	if u.kfMemo == nil {
		u.kfMemo = map[string]kfEntry{}
	}
	cur := u.S.ScopeID()
	if e, ok := u.kfMemo[t.S]; ok {
		if e.res && u.S.Alive(e.scope) {
			return true
		}
		if !e.res && e.scope == cur {
			return false
		}
	}
	u.S.Push()
	u.S.Assert(t)
	r := u.S.CheckSatT(u.Cfg.FeasMs)
	u.S.Pop()
	res := r == "unsat"
	u.kfMemo[t.S] = kfEntry{res: res, scope: cur}
	return res
}

// provableQ: t follows from the path condition including the quantified
// hypotheses (no obligation is recorded).
func (u *Unit) provableQ(t *Term) bool {
	if t.IsBool {
		return t.B
	}
	r, _ := u.S.CheckGoalT(t, nil, 1500)
	return r == "unsat"
}
