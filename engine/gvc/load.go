package gvc

import (
	"fmt"
	"go/token"
	"go/types"
	"os"
	"path/filepath"
	"sort"
	"strings"

	"golang.org/x/tools/go/packages"
	"golang.org/x/tools/go/ssa"
	"golang.org/x/tools/go/ssa/ssautil"
)

const ModPath = "github.com/go-i2p/common"

// Program is the loaded /repo (current working tree) lowered to SSA, with the
// synthetic spec files (generated from the //@ contract comments) injected as
// overlay files of their packages.
type Program struct {
	Repo   string
	Fset   *token.FileSet
	Pkgs   []*packages.Package
	Prog   *ssa.Program
	ByPath map[string]*ssa.Package
	Specs  map[string]*SpecFile // by package path
	byName map[string]*ssa.Function
	ElemInv map[string]*ssa.Function // element type string -> invariant (spec function)
}

// Load loads every package of the module rooted at repo. overlayGen is called
// per package directory and may return synthetic file content.
func Load(repo string, withSpecs bool) (*Program, error) {
	p := &Program{Repo: repo, ByPath: map[string]*ssa.Package{}, Specs: map[string]*SpecFile{}}
	overlay := map[string][]byte{}
	if withSpecs {
		dirs, _ := filepath.Glob(filepath.Join(repo, "*", "contracts_verif.go"))
		for _, f := range dirs {
			sf, err := ParseSpecFile(f)
			if err != nil {
				return nil, fmt.Errorf("spec %s: %v", f, err)
			}
			dir := filepath.Dir(f)
			overlay[filepath.Join(dir, "zz_gvc_spec.go")] = []byte(sf.GoSource())
			sf.genLines() // precompute (shared read-only between units afterwards)
			p.Specs[ModPath+"/"+filepath.Base(dir)] = sf
		}
	}
	cfg := &packages.Config{
		Mode:    packages.LoadAllSyntax,
		Dir:     repo,
		Overlay: overlay,
		Tests:   false,
		Env:     os.Environ(),
	}
	pkgs, err := packages.Load(cfg, "./...")
	if err != nil {
		return nil, err
	}
	var errs []string
	packages.Visit(pkgs, nil, func(pk *packages.Package) {
		for _, e := range pk.Errors {
			errs = append(errs, e.Error())
		}
	})
	if len(errs) > 0 {
		sort.Strings(errs)
		if len(errs) > 30 {
			errs = errs[:30]
		}
		return nil, fmt.Errorf("load errors:\n%s", strings.Join(errs, "\n"))
	}
	p.Pkgs = pkgs
	prog, _ := ssautil.AllPackages(pkgs, ssa.GlobalDebug|ssa.InstantiateGenerics)
	prog.Build()
	p.Prog = prog
	if len(pkgs) > 0 {
		p.Fset = pkgs[0].Fset
	}
	for _, sp := range prog.AllPackages() {
		p.ByPath[sp.Pkg.Path()] = sp
	}
	p.ElemInv = map[string]*ssa.Function{}
	for path, sf := range p.Specs {
		for _, name := range sf.ElemInvs {
			if sp := p.ByPath[path]; sp != nil {
				if fn := sp.Func(name); fn != nil && len(fn.Params) == 1 {
					p.ElemInv[types.TypeString(fn.Params[0].Type(), nil)] = fn
				} else {
					return nil, fmt.Errorf("elem invariant %s in %s: no such one-parameter spec function", name, path)
				}
			}
		}
	}
	return p, nil
}

// InRepo reports whether fn belongs to the module under verification.
func InRepo(fn *ssa.Function) bool {
	if fn == nil {
		return false
	}
	pk := fn.Package()
	if pk == nil {
		if fn.Parent() != nil {
			return InRepo(fn.Parent())
		}
		// synthetic wrapper: look at the object
		if o := fn.Object(); o != nil && o.Pkg() != nil {
			return strings.HasPrefix(o.Pkg().Path(), ModPath)
		}
		return false
	}
	return strings.HasPrefix(pk.Pkg.Path(), ModPath)
}

// FuncName gives a stable display name: pkg.Func or pkg.(T).Method.
func FuncName(fn *ssa.Function) string {
	if fn == nil {
		return "<nil>"
	}
	s := fn.String()
	s = strings.ReplaceAll(s, ModPath+"/", "")
	return s
}

// LookupFunc finds pkg-level function or method by "Name" / "T.Name" / "(*T).Name".
func (p *Program) LookupFunc(pkgPath, name string) *ssa.Function {
	sp := p.ByPath[pkgPath]
	if sp == nil {
		return nil
	}
	if !strings.Contains(name, ".") {
		return sp.Func(name)
	}
	ptr := false
	n := name
	if strings.HasPrefix(n, "(*") {
		ptr = true
		n = strings.Replace(n[2:], ")", "", 1)
	} else if strings.HasPrefix(n, "(") {
		n = strings.Replace(n[1:], ")", "", 1)
	}
	parts := strings.SplitN(n, ".", 2)
	t := sp.Type(parts[0])
	if t == nil {
		return nil
	}
	var T types.Type = t.Type()
	if ptr {
		T = types.NewPointer(T)
	}
	ms := p.Prog.MethodSets.MethodSet(T)
	for i := 0; i < ms.Len(); i++ {
		sel := ms.At(i)
		if sel.Obj().Name() == parts[1] {
			return p.Prog.MethodValue(sel)
		}
	}
	if !ptr {
		ms = p.Prog.MethodSets.MethodSet(types.NewPointer(T))
		for i := 0; i < ms.Len(); i++ {
			sel := ms.At(i)
			if sel.Obj().Name() == parts[1] {
				return p.Prog.MethodValue(sel)
			}
		}
	}
	return nil
}

// AllRepoFuncs lists every non-synthetic function and method declared in /repo
// (excluding the generated spec file), sorted by name.
func (p *Program) AllRepoFuncs() []*ssa.Function {
	var out []*ssa.Function
	for fn := range ssautil.AllFunctions(p.Prog) {
		if fn.Synthetic != "" || fn.Parent() != nil {
			continue
		}
		if !InRepo(fn) || fn.Pkg == nil {
			continue
		}
		if strings.Contains(fn.Pkg.Pkg.Path(), "/fuzz") {
			continue
		}
		pos := p.Fset.Position(fn.Pos())
		if strings.HasSuffix(pos.Filename, "zz_gvc_spec.go") {
			continue
		}
		out = append(out, fn)
	}
	sort.Slice(out, func(i, j int) bool { return out[i].String() < out[j].String() })
	return out
}

// Exported: exported package-level function, or exported method of an
// exported type.
func Exported(fn *ssa.Function) bool {
	o := fn.Object()
	if o == nil || !o.Exported() {
		return false
	}
	if recv := fn.Signature.Recv(); recv != nil {
		t := recv.Type()
		if pt, ok := t.(*types.Pointer); ok {
			t = pt.Elem()
		}
		if n, ok := t.(*types.Named); ok {
			return n.Obj().Exported()
		}
		return false
	}
	return true
}
