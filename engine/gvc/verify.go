package gvc

import (
	"os"
	"runtime/debug"
	"fmt"
	"go/types"
	"sort"
	"strings"
	"time"

	"golang.org/x/tools/go/ssa"
)

// UnitResult is what one verification unit reports.
type UnitResult struct {
	Name     string         `json:"name"`
	Kind     string         `json:"kind"` // function | lemma | sweep
	Obls     []*Obligation  `json:"obligations"`
	Paths    int            `json:"paths"`
	Returns  int            `json:"returns"`
	Limits   []string       `json:"limits,omitempty"`
	Assumed  map[string]int `json:"assumed,omitempty"`
	Inlined  map[string]int `json:"inlined,omitempty"`
	Used     map[string]int `json:"contracts_used,omitempty"`
	Bounded  []string       `json:"bounded,omitempty"`
	TimeS    float64        `json:"time_s"`
	Checks   int            `json:"solver_checks"`
	SolverS  float64        `json:"solver_time_s"`
	Panic    string         `json:"engine_panic,omitempty"`
	Inputs   []InputLeaf    `json:"-"`
	NAssume  int            `json:"assume_calls"`
	Standalone int          `json:"standalone_checks"`
}

// Options for one unit.
type Options struct {
	UseRequires bool // assume the target's own requires clauses
	CheckPosts  bool // prove the target's ensures clauses at every return
	NoAlias     bool // generated C08 obligation: results do not alias parameters
	ZeroRecv    bool // receiver is the zero value of its type (C20)
	MethodsOnSuccess bool // C04: run every exported method on the value returned without error
	MethodsOnError   bool // C20: run every exported argument-free method on the value returned with an error
	ViaContract      bool // do not execute the target's body: havoc its results and assume its own contract (method harness)
	ExtraPost   func(u *Unit, st *State, params []Val, res Val)
}

func (u *Unit) repoInitOrder(pkg *ssa.Package) []*ssa.Package {
	var order []*ssa.Package
	seen := map[*types.Package]bool{}
	var visit func(p *types.Package)
	visit = func(p *types.Package) {
		if seen[p] {
			return
		}
		seen[p] = true
		for _, im := range p.Imports() {
			visit(im)
		}
		if strings.HasPrefix(p.Path(), ModPath) {
			if sp := u.P.Prog.Package(p); sp != nil {
				order = append(order, sp)
			}
		}
	}
	visit(pkg.Pkg)
	return order
}

// runInits executes the package initialisers of the /repo packages the target
// depends on, so that package-level tables and error values have their real
// initial values (assumption A-GLOBALS: nothing reassigns them later; the
// frame obligations check that for the code under verification).
func (u *Unit) runInits(st *State, pkg *ssa.Package) {
	u.inInit = true
	saveSafety, saveFrame := u.Cfg.Safety, u.Cfg.FrameCheck
	u.Cfg.Safety, u.Cfg.FrameCheck = false, false
	for _, sp := range u.repoInitOrder(pkg) {
		initFn := sp.Func("init")
		if initFn == nil || initFn.Blocks == nil {
			continue
		}
		// mark imported repo packages as already initialised: we run them in order
		done := false
		u.runFunc(st, initFn, nil, nil, 0, func(st2 *State, _ Val) {
			if !done {
				*st = *st2
				done = true
			}
		})
	}
	u.Cfg.Safety, u.Cfg.FrameCheck = saveSafety, saveFrame
	u.inInit = false
	// everything that exists now pre-exists the function under verification
	for k, r := range st.regions {
		if r.Fresh && !r.Virt {
			n := *r
			n.Fresh = false
			n.Input = true
			st.regions[k] = &n
		}
	}
	u.initCells = u.ncell
	for id, ms := range st.maps {
		_ = id
		_ = ms
	}
	// maps stored in globals are package-level tables
	for key, c := range u.cellIdx {
		if !strings.HasPrefix(key, "g:") {
			continue
		}
		if mv, ok := st.cells[c.ID].(MapV); ok && mv.ID != 0 {
			if ms := st.maps[mv.ID]; ms != nil {
				n := *ms
				n.Global = strings.TrimPrefix(key, "g:")
				st.maps[mv.ID] = &n
			}
		}
	}
	u.Inlined = map[string]int{}
	u.Limits = nil
}

func newState(u *Unit) *State {
	return &State{
		cells: map[int]Val{}, regions: map[string]*Region{}, edges: map[string][]Edge{},
		canon: map[string]string{}, symCells: map[int]bool{}, memo: map[string]Val{}, visits: map[string]int{}, maps: map[int]*MapState{},
		wm: u.alloc0,
	}
}

// VerifyFunc runs one unit: the function is executed from its entry with
// symbolic parameters.
func VerifyFunc(p *Program, fn *ssa.Function, cfg Config, opt Options) (res *UnitResult) {
	u := NewUnit(p, fn, cfg)
	defer u.Close()
	res = &UnitResult{Name: FuncName(fn), Kind: "function"}
	if u.isSpecFile(fn) {
		res.Kind = "lemma"
	}
	t0 := time.Now()
	defer func() {
		if r := recover(); r != nil {
			res.Panic = fmt.Sprint(r)
			if os.Getenv("GVC_TRACE") != "" {
				fmt.Fprintf(os.Stderr, "PANIC in %s: %v\n%s\n", res.Name, r, debug.Stack())
			}
			u.limit("engine panic: %v", r)
		}
		if u.Cfg.FrameCheck && u.Cfg.FrameSummary {
			// the frame condition as one named obligation per function: every
			// store examined on every path went to memory the call allocated
			name := FuncName(fn) + "#frame:writes only memory allocated during the call (receiver, arguments and package-level state unchanged)"
			o := &Obligation{Name: name, Kind: "frame", Func: FuncName(fn), Text: "modifies nothing", Status: "proved", Instances: u.StoresSeen + 1,
				Solver: "symbolic execution: no store reached pre-existing memory on any path"}
			for _, x := range u.Obls {
				if x.Kind == "frame" && x.Status != "proved" {
					o.Status = x.Status
				}
			}
			if len(u.Limits) > 0 {
				o.Status = "unknown"
			}
			if _, dup := u.Obls[name]; !dup {
				u.Obls[name] = o
				u.oblOrder = append(u.oblOrder, name)
			}
		}
		if u.Returns == 0 && len(u.Limits) == 0 && !opt.ViaContract {
			// vacuity guard: every path was cut (bounded loop, infeasible
			// branch) before any return - nothing was checked at a return
			u.limit("vacuous unit: no path reached a return")
		}
		res.Obls = u.Results()
		res.Paths = u.Paths + 1
		res.Returns = u.Returns
		res.Limits = u.Limits
		res.Assumed = u.Assumed
		res.Inlined = u.Inlined
		res.Used = u.UsedContracts
		res.Bounded = u.Bounded
		res.TimeS = time.Since(t0).Seconds()
		res.Checks = u.S.Checks
		res.SolverS = u.S.Time.Seconds()
		res.Inputs = u.inputs
		res.NAssume = u.NAssumeCalls
		res.Standalone = u.Standalone
		if len(u.S.Errors) > 0 {
			res.Limits = append(res.Limits, "engine panic: solver rejected a query: "+u.S.Errors[0])
		}
	}()
	if fn.Pkg != nil {
		if sf := p.Specs[fn.Pkg.Pkg.Path()]; sf != nil {
			uname := strings.TrimPrefix(fn.Name(), "gvcL_")
			if fn.Signature.Recv() != nil {
				uname = shortFuncName(fn)
			}
			if nc := sf.NoContract[uname]; len(nc) > 0 {
				if u.Cfg.NoContracts == nil {
					u.Cfg.NoContracts = map[string]bool{}
				} else {
					m := map[string]bool{}
					for k, v := range u.Cfg.NoContracts {
						m[k] = v
					}
					u.Cfg.NoContracts = m
				}
				for _, n := range nc {
					u.Cfg.NoContracts[n] = true
				}
			}
		}
	}
	u.alloc0 = u.newInt("alloc0")
	u.assume(Gt(u.alloc0, IntLit(0)))
	st := newState(u)
	if fn.Pkg != nil {
		u.runInits(st, fn.Pkg)
	}
	// allocations of the function under verification start at alloc0
	st.wm, st.nalloc = u.alloc0, 0
	for _, k := range st.order {
		if r := st.regions[k]; r != nil && !r.Virt {
			u.assume(Lt(r.Blk, u.alloc0))
		}
	}
	u.Returns = 0
	u.inputs = nil
	// parameters
	var params []Val
	for i, prm := range fn.Params {
		name := prm.Name()
		if name == "" {
			name = fmt.Sprintf("p%d", i)
		}
		if opt.ZeroRecv && i == 0 && fn.Signature.Recv() != nil {
			if pt, ok := prm.Type().Underlying().(*types.Pointer); ok {
				// pointer receiver: a pointer to the zero value
				c := u.newCell(pt.Elem(), false, true, "zero")
				st.cells[c.ID] = u.zeroVal(pt.Elem())
				params = append(params, PtrV{Nil: TFalse, Cell: c, Elem: pt.Elem()})
			} else {
				params = append(params, u.zeroVal(prm.Type()))
			}
			continue
		}
		params = append(params, u.freshVal(st, prm.Type(), name, true))
	}
	u.paramVals = params
	ct := p.ContractOf(fn)
	if ct != nil && opt.UseRequires {
		for _, cl := range ct.Requires {
			cf := fn.Pkg.Func(cl.Func)
			u.assume(u.evalPure(st, cf, params, nil).(*Term))
		}
	}
	if !u.pathFeasible() {
		u.limit("precondition unsatisfiable (vacuous)")
	}
	if ct != nil && ct.Modifies == "nothing" {
		u.Cfg.FrameCheck = true
	}
	run := func(k Kont) { u.runFunc(st, fn, params, nil, 0, k) }
	if opt.ViaContract && ct != nil {
		// modular harness: the value is whatever the contract allows
		run = func(k Kont) {
			u.curFn = append(u.curFn, fn)
			base := Add(st.wm, IntLit(int64(st.nalloc)))
			res := u.havocResult(st, fn.Signature.Results(), "ret_"+fn.Name())
			u.bumpWatermark(st)
			var all []Val
			all = append(all, params...)
			switch r := res.(type) {
			case nil:
			case TupleV:
				all = append(all, r.E...)
			default:
				all = append(all, r)
			}
			epoch := len(st.order)
			u.walkIfaces(st, res, 0, func(iv IfaceV) {
				if iv.Opq != nil {
					u.ifBase[iv.Opq.S] = base
					u.ifBound[iv.Opq.S] = st.wm
				}
			})
			u.walkSlices(st, res, 0, func(s SliceV) {
				u.assume(Lt(s.Blk, st.wm))
				u.blkInfo[s.Blk.S] = blkMeta{base: base, epoch: epoch}
			})
			u.ctxBase = base
			u.noNilMerge = true
			for _, cl := range ct.Ensures {
				cf := fn.Pkg.Func(cl.Func)
				u.assume(u.evalPure(st, cf, all, nil).(*Term))
			}
			u.noNilMerge = false
			u.ctxBase = nil
			u.curFn = u.curFn[:len(u.curFn)-1]
			k(st, res)
		}
	}
	run(func(st2 *State, r Val) {
		if st2.dead {
			return
		}
		var all []Val
		all = append(all, params...)
		switch x := r.(type) {
		case nil:
		case TupleV:
			all = append(all, x.E...)
		default:
			all = append(all, x)
		}
		if ct != nil && opt.CheckPosts {
			u.curFn = append(u.curFn, fn)
			for _, cl := range ct.Ensures {
				if cl.ByLemma != "" {
					continue // discharged by the named lemma
				}
				cf := fn.Pkg.Func(cl.Func)
				u.goalMode++
				t := u.evalPure(st2, cf, all, nil).(*Term)
				u.goalMode--
				name := fmt.Sprintf("%s#post:%s", FuncName(fn), cl.Text)
				if len(name) > 200 {
					name = name[:200]
				}
				ok := u.check(st2, name, "post", t, cl.Text)
				_ = ok
				u.Obls[name].Props = cl.Props
				u.Obls[name].ClauseFunc = cl.Func
			}
			u.curFn = u.curFn[:len(u.curFn)-1]
		}
		if ct != nil && opt.CheckPosts && len(p.ElemInv) > 0 {
			u.curFn = append(u.curFn, fn)
			u.checkElemInvs(st2, fn, r)
			u.curFn = u.curFn[:len(u.curFn)-1]
		}
		if opt.ZeroRecv {
			// verification of a zero value never reports success
			switch fn.Name() {
			case "Verify", "VerifySignature":
				res := fn.Signature.Results()
				var vals []Val
				if tv, ok := r.(TupleV); ok {
					vals = tv.E
				} else if r != nil {
					vals = []Val{r}
				}
				for i := 0; i < res.Len() && i < len(vals); i++ {
					u.curFn = append(u.curFn, fn)
					if iv, ok := vals[i].(IfaceV); ok && types.Identical(res.At(i).Type(), types.Universe.Lookup("error").Type()) {
						u.check(st2, fmt.Sprintf("%s#zero:verification of the zero value fails", FuncName(fn)), "zero", Not(iv.Nil), "zero value never verifies")
					} else if bv, ok := vals[i].(*Term); ok && bv.Sort == SBool && res.Len() <= 2 && i == 0 {
						u.check(st2, fmt.Sprintf("%s#zero:verification of the zero value fails", FuncName(fn)), "zero", Not(bv), "zero value never verifies")
					}
					u.curFn = u.curFn[:len(u.curFn)-1]
				}
			}
		}
		if opt.NoAlias {
			u.curFn = append(u.curFn, fn)
			u.checkNoAlias(st2, fn, r)
			u.curFn = u.curFn[:len(u.curFn)-1]
		}
		if opt.ExtraPost != nil {
			opt.ExtraPost(u, st2, params, r)
		}
		if opt.MethodsOnSuccess || opt.MethodsOnError {
			u.methodsAfter(st2, fn, r, opt)
		}
	})
	return res
}

// checkNoAlias: every byte slice reachable from the results (except those
// named remainder/rem, which must alias) lies in memory allocated by this call.
func (u *Unit) checkNoAlias(st *State, fn *ssa.Function, r Val) {
	results := fn.Signature.Results()
	var vals []Val
	switch x := r.(type) {
	case nil:
		return
	case TupleV:
		vals = x.E
	default:
		vals = []Val{x}
	}
	for i, v := range vals {
		name := results.At(i).Name()
		if name == "" {
			name = fmt.Sprintf("result%d", i)
		}
		isRem := i > 0 && isByteSlice(results.At(i).Type()) && i == 1
		if strings.HasPrefix(strings.ToLower(name), "rem") || isRem {
			continue
		}
		n := 0
		u.walkSlices(st, v, 0, func(s SliceV) {
			n++
			goal := Or(Eq(s.Blk, IntLit(0)), Ge(s.Blk, u.alloc0))
			u.check(st, fmt.Sprintf("%s#noalias:%s", FuncName(fn), name), "noalias", goal, "byte slices reachable from "+name+" do not point into memory that existed before the call")
		})
	}
}

func isByteSlice(t types.Type) bool {
	s, ok := t.Underlying().(*types.Slice)
	return ok && isByte(s.Elem())
}

// Summary line for logs.
func (r *UnitResult) Summary() string {
	var proved, failed, unknown int
	for _, o := range r.Obls {
		switch o.Status {
		case "proved":
			proved++
		case "failed":
			failed++
		default:
			unknown++
		}
	}
	return fmt.Sprintf("%-60s obls=%d proved=%d failed=%d unknown=%d paths=%d returns=%d limits=%d t=%.1fs (checks=%d/%.1fs standalone=%d)", r.Name, len(r.Obls), proved, failed, unknown, r.Paths, r.Returns, len(r.Limits), r.TimeS, r.Checks, r.SolverS, r.Standalone)
}

func sortObls(os []*Obligation) {
	sort.Slice(os, func(i, j int) bool { return os[i].Name < os[j].Name })
}

// plainParam: a parameter an attacker / caller controls as data: bytes,
// strings, integers, booleans, byte arrays.
func plainParam(t types.Type) bool {
	switch x := t.Underlying().(type) {
	case *types.Basic:
		return x.Info()&(types.IsInteger|types.IsBoolean|types.IsString) != 0
	case *types.Slice:
		return isByte(x.Elem())
	case *types.Array:
		return isByte(x.Elem())
	}
	return false
}

func hasByteParam(fn *ssa.Function) bool {
	for _, p := range fn.Params {
		switch x := p.Type().Underlying().(type) {
		case *types.Slice:
			if isByte(x.Elem()) {
				return true
			}
		case *types.Basic:
			if x.Info()&types.IsString != 0 {
				return true
			}
		case *types.Array:
			if isByte(x.Elem()) {
				return true
			}
		}
	}
	return false
}

// EntryPoints: the exported package-level functions that consume bytes,
// strings or type/size codes (C04's "parsers and decoders").
func (p *Program) EntryPoints() []*ssa.Function {
	var out []*ssa.Function
	for _, fn := range p.AllRepoFuncs() {
		if !Exported(fn) || fn.Signature.Recv() != nil || len(fn.Params) == 0 {
			continue
		}
		ok := true
		for _, prm := range fn.Params {
			if !plainParam(prm.Type()) {
				ok = false
			}
		}
		if !ok {
			continue
		}
		if !hasByteParam(fn) {
			// integers only: a size/type lookup unless it builds a buffer
			res := fn.Signature.Results()
			for i := 0; i < res.Len(); i++ {
				if _, isSlice := res.At(i).Type().Underlying().(*types.Slice); isSlice {
					ok = false
				}
			}
		}
		if ok {
			out = append(out, fn)
		}
	}
	return out
}

// exportedMethods of the (named) type of a parser's first result.
func (p *Program) exportedMethods(t types.Type) []*ssa.Function {
	var out []*ssa.Function
	seen := map[string]bool{}
	add := func(T types.Type) {
		ms := p.Prog.MethodSets.MethodSet(T)
		for i := 0; i < ms.Len(); i++ {
			sel := ms.At(i)
			if !sel.Obj().Exported() || seen[sel.Obj().Name()] {
				continue
			}
			fn := p.Prog.MethodValue(sel)
			if fn == nil {
				continue
			}
			seen[sel.Obj().Name()] = true
			out = append(out, fn)
		}
	}
	if pt, ok := t.(*types.Pointer); ok {
		add(pt)
	} else {
		add(types.NewPointer(t))
	}
	sort.Slice(out, func(i, j int) bool { return out[i].Name() < out[j].Name() })
	return out
}

// runMethodsOn executes every exported method of recv's type on the symbolic
// value recv (as it is on the current path); only safety obligations arise.
func (u *Unit) runMethodsOn(st *State, recv Val, t types.Type, tag string) {
	named := t
	if pt, ok := t.(*types.Pointer); ok {
		named = pt.Elem()
	}
	if _, ok := named.(*types.Named); !ok {
		return
	}
	for _, m := range u.P.exportedMethods(t) {
		sig := m.Signature
		if u.argFreeOnly && sig.Params().Len() > 0 {
			continue
		}
		okParams := true
		for i := 0; i < sig.Params().Len(); i++ {
			if !plainParam(sig.Params().At(i).Type()) {
				okParams = false
			}
		}
		if !okParams {
			u.SkippedMethods[FuncName(m)] = true
			continue
		}
		if u.overBudget() {
			return
		}
		st2 := st.Clone()
		// receiver in the form the method wants
		var rv Val = recv
		_, wantPtr := sig.Recv().Type().(*types.Pointer)
		_, havePtr := t.(*types.Pointer)
		switch {
		case wantPtr && !havePtr:
			c := u.newCell(t, false, false, "recv")
			st2.cells[c.ID] = recv
			rv = PtrV{Nil: TFalse, Cell: c, Elem: t}
		case !wantPtr && havePtr:
			pv, ok := recv.(PtrV)
			if !ok || pv.Cell == nil {
				continue
			}
			rv = u.loadPath(st2, pv)
		}
		args := []Val{rv}
		for i := 0; i < sig.Params().Len(); i++ {
			args = append(args, u.freshVal(st2, sig.Params().At(i).Type(), "marg", true))
		}
		u.MethodRuns[FuncName(m)+" "+tag]++
		u.S.Push()
		if pv, ok := rv.(PtrV); ok && m.Synthetic != "" {
			// A compiler-generated wrapper (value method called through a
			// pointer, method promoted from an embedded field): with a nil
			// pointer Go itself panics before any code of the library runs;
			// there is no value to touch.
			u.assume(Not(pv.Nil))
			if !u.pathFeasible() {
				u.S.Pop()
				continue
			}
		}
		if sig.Params().Len() == 0 {
			u.curMethod = m.Name()
		}
		u.runFunc(st2, m, args, nil, 1, func(*State, Val) {})
		u.curMethod = ""
		u.S.Pop()
	}
}

// methodsAfter: the parser has returned on this path; depending on whether it
// returned an error, run the exported methods of the value it returned.
func (u *Unit) methodsAfter(st *State, fn *ssa.Function, r Val, opt Options) {
	res := fn.Signature.Results()
	if res.Len() < 1 {
		return
	}
	var vals []Val
	switch x := r.(type) {
	case TupleV:
		vals = x.E
	default:
		vals = []Val{r}
	}
	errIdx := -1
	for i := res.Len() - 1; i >= 0; i-- {
		if types.Identical(res.At(i).Type(), types.Universe.Lookup("error").Type()) {
			errIdx = i
			break
		}
	}
	t0 := res.At(0).Type()
	if errIdx == 0 {
		return
	}
	var isNil *Term = TTrue
	if errIdx > 0 {
		ev, ok := vals[errIdx].(IfaceV)
		if !ok {
			return
		}
		isNil = ev.Nil
	} else if sl, ok := res.At(res.Len() - 1).Type().Underlying().(*types.Slice); ok && types.Identical(sl.Elem(), types.Universe.Lookup("error").Type()) {
		// []error: success means an empty list
		if sv, ok := vals[res.Len()-1].(SliceV); ok {
			isNil = Eq(sv.Len, IntLit(0))
		}
	}
	u.fork(st, isNil, func(st2 *State, success bool) {
		if success && opt.MethodsOnSuccess {
			u.argFreeOnly = false
			u.runMethodsOn(st2, vals[0], t0, "after success")
		}
		if !success && opt.MethodsOnError {
			// one representative per shape of the partial value (which
			// pointers / slices / interfaces are nil, constant lengths)
			key := u.shapeKey(st2, vals[0], 0)
			if u.shapesSeen == nil {
				u.shapesSeen = map[string]bool{}
			}
			u.ErrorReturns++
			if u.shapesSeen[key] {
				return
			}
			u.shapesSeen[key] = true
			u.argFreeOnly = true
			u.runMethodsOn(st2, vals[0], t0, "after error")
			u.argFreeOnly = false
		}
	})
}

// shapeKey: which pointers, slices and interfaces of v are nil and which
// lengths are constants (the part of a partial value that decides whether an
// accessor dereferences nil or indexes out of range).
func (u *Unit) shapeKey(st *State, v Val, depth int) string {
	if depth > 5 {
		return "…"
	}
	lit := func(t *Term) string {
		switch {
		case t == nil:
			return "-"
		case t.IsInt:
			return t.I.String()
		case t.IsBool:
			if t.B {
				return "T"
			}
			return "F"
		}
		return "?"
	}
	switch x := v.(type) {
	case nil:
		return "nil"
	case *Term:
		return lit(x)
	case SliceV:
		if x.Blk.IsInt && x.Blk.I.Sign() == 0 {
			return "s:nil"
		}
		r := "s" + lit(x.Len)
		if x.List != nil && x.Len.IsInt {
			n := int(x.Len.I.Int64())
			for i := 0; i < n && i < 4; i++ {
				r += "," + u.shapeKey(st, u.loadCell(st, u.listCell(x.List, x.LOff+i)), depth+1)
			}
		}
		return r
	case StrV:
		return "str" + lit(x.Len)
	case ArrV, ArrRefV, ArrTupleV:
		return "arr"
	case StructV:
		var ps []string
		for _, e := range x.F {
			ps = append(ps, u.shapeKey(st, e, depth+1))
		}
		return "{" + strings.Join(ps, " ") + "}"
	case TupleV:
		var ps []string
		for _, e := range x.E {
			ps = append(ps, u.shapeKey(st, e, depth+1))
		}
		return "(" + strings.Join(ps, " ") + ")"
	case PtrV:
		if x.Nil.IsBool && x.Nil.B {
			return "p:nil"
		}
		if x.Cell == nil || x.Blk != nil {
			return "p" + lit(x.Nil)
		}
		return "p" + lit(x.Nil) + "&" + u.shapeKey(st, u.loadPath(st, x), depth+1)
	case IfaceV:
		d := ""
		if x.Dyn != nil {
			d = x.Dyn.String()
		}
		return "i" + lit(x.Nil) + d
	case MapV:
		return "map"
	}
	return fmt.Sprintf("%T", v)
}

// checkElemInvs: every list a function under contract returns (directly or
// inside its results) whose element type has a declared element invariant
// satisfies it.  Lists that came from outside (inputs, contract calls) already
// satisfy it by assumption A-ELEM.
func (u *Unit) checkElemInvs(st *State, fn *ssa.Function, r Val) {
	seen := map[int]bool{}
	var walk func(v Val, depth int)
	walk = func(v Val, depth int) {
		if depth > 8 {
			return
		}
		switch x := v.(type) {
		case SliceV:
			if x.List == nil || seen[x.List.ID] {
				return
			}
			seen[x.List.ID] = true
			inv := u.P.ElemInv[types.TypeString(x.Elem, nil)]
			if inv == nil || x.List.Sym {
				return
			}
			name := fmt.Sprintf("%s#elem:%s holds for every element of the returned list", FuncName(fn), inv.Name())
			if !x.Len.IsInt {
				u.check(st, name, "elem", Eq(x.Len, IntLit(0)), "element invariant of a returned list of symbolic length")
				return
			}
			for i := 0; i < int(x.Len.I.Int64()) && i < 64; i++ {
				ev := u.loadCell(st, u.listCell(x.List, x.LOff+i))
				u.goalMode++
				t := u.evalPure(st, inv, []Val{ev}, nil).(*Term)
				u.goalMode--
				u.check(st, name, "elem", t, inv.Name())
			}
		case StructV:
			for _, e := range x.F {
				walk(e, depth+1)
			}
		case TupleV:
			for _, e := range x.E {
				walk(e, depth+1)
			}
		case PtrV:
			if x.Cell != nil && x.Blk == nil && !(x.Nil.IsBool && x.Nil.B) {
				walk(u.loadPath(st, x), depth+1)
			}
		}
	}
	walk(r, 0)
}
