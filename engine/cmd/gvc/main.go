package main

import (
	"encoding/json"
	"flag"
	"fmt"
	"os"
	"runtime/pprof"
	"strings"
	"sync"

	"gvc/gvc"
)

func main() {
	if len(os.Args) < 2 {
		fmt.Println("usage: gvc <cmd>")
		os.Exit(2)
	}
	switch os.Args[1] {
	case "version":
		fmt.Println("gvc 0.1")
	case "dump":
		p, err := gvc.Load("/repo", true)
		if err != nil {
			fmt.Println(err)
			os.Exit(2)
		}
		fn := p.LookupFunc(gvc.ModPath+"/"+os.Args[2], os.Args[3])
		if fn == nil {
			fmt.Println("not found")
			os.Exit(2)
		}
		fn.WriteTo(os.Stdout)
	case "check":
		fs := flag.NewFlagSet("check", flag.ExitOnError)
		repo := fs.String("repo", "/repo", "repository")
		prop := fs.String("property", "", "property id")
		tier := fs.String("tier", "quick", "quick|thorough")
		seed := fs.Int("seed", 0, "seed")
		vdir := fs.String("verif", "/verif", "verif dir")
		fs.Parse(os.Args[2:])
		os.Exit(gvc.RunProperty(*repo, *vdir, *prop, *tier, *seed))
	case "sweep":
		fs := flag.NewFlagSet("sweep", flag.ExitOnError)
		repo := fs.String("repo", "/repo", "repository")
		nocontracts := fs.Bool("inline", false, "ignore contracts (inline everything)")
		funcsOnly := fs.Bool("funcs", false, "package-level functions only")
		verbose := fs.Bool("v", false, "verbose")
		fs.Parse(os.Args[2:])
		p, err := gvc.Load(*repo, true)
		if err != nil {
			fmt.Println(err)
			os.Exit(2)
		}
		cfg := gvc.DefaultConfig()
		var specs []gvc.UnitSpec
		for _, fn := range p.AllRepoFuncs() {
			if !gvc.Exported(fn) {
				continue
			}
			if *funcsOnly && fn.Signature.Recv() != nil {
				continue
			}
			if len(fs.Args()) > 0 {
				ok := false
				for _, a := range fs.Args() {
					if fn.Pkg.Pkg.Name() == a {
						ok = true
					}
				}
				if !ok {
					continue
				}
			}
			c := cfg
			if *nocontracts {
				c.NoContracts = map[string]bool{"*": true}
			}
			specs = append(specs, gvc.UnitSpec{Fn: fn, Opt: gvc.Options{UseRequires: true}, Cfg: &c, Kind: "sweep"})
		}
		var mu sync.Mutex
		gvc.Progress = func(r *gvc.UnitResult) {
			mu.Lock()
			fmt.Fprintln(os.Stderr, "done:", r.Summary())
			mu.Unlock()
		}
		res := gvc.RunUnits(p, specs, cfg)
		tot, bad := 0, 0
		for _, r := range res {
			nb := 0
			for _, o := range r.Obls {
				tot++
				if o.Status != "proved" {
					nb++
					bad++
				}
			}
			if nb > 0 || len(r.Limits) > 0 || *verbose {
				fmt.Println(r.Summary())
				for _, o := range r.Obls {
					if o.Status != "proved" {
						fmt.Printf("   %-8s %s\n", o.Status, o.Name)
					}
				}
				for _, l := range r.Limits {
					fmt.Println("   LIMIT:", l)
				}
			}
		}
		fmt.Printf("units=%d obligations=%d notproved=%d\n", len(res), tot, bad)
	case "loops":
		p, err := gvc.Load("/repo", false)
		if err != nil {
			fmt.Println(err)
			os.Exit(2)
		}
		for _, fn := range p.AllRepoFuncs() {
			n := gvc.CountLoops(fn)
			if n > 0 {
				fmt.Printf("%d %s\n", n, gvc.FuncName(fn))
			}
		}
	case "replay":
		fs := flag.NewFlagSet("replay", flag.ExitOnError)
		repo := fs.String("repo", "/repo", "repository")
		file := fs.String("file", "", "replay file")
		fs.Parse(os.Args[2:])
		os.Exit(gvc.ReplayFile(*repo, *file))
	case "verify":
		fs := flag.NewFlagSet("verify", flag.ExitOnError)
		verbose := fs.Bool("v", false, "verbose")
		repo := fs.String("repo", "/repo", "repository")
		posts := fs.Bool("posts", true, "check postconditions")
		noalias := fs.Bool("noalias", false, "check noalias")
		unroll := fs.Int("unroll", 3, "default loop bound")
		asJSON := fs.Bool("json", false, "json output")
		prof := fs.String("cpuprofile", "", "write cpu profile")
		qcap := fs.Int("qcap", 2, "quick-tier cap for unroll loops (0 = none)")
		methods := fs.Bool("methods", false, "run exported methods on the value returned without error")
		zero := fs.Bool("zero", false, "receiver is the zero value")
		unitsec := fs.Int("unitsec", 400, "unit time limit")
		onerr := fs.Bool("onerror", false, "run exported argument-free methods on the value returned with an error (C20)")
		nocon := fs.String("nocontract", "", "comma-separated functions whose contracts are ignored (bodies executed)")
		inlpre := fs.Bool("inlinepre", false, "execute a callee's body when its precondition is not provable")
		fs.Parse(os.Args[2:])
		args := fs.Args()
		p, err := gvc.Load(*repo, true)
		if err != nil {
			fmt.Println(err)
			os.Exit(2)
		}
		cfg := gvc.DefaultConfig()
		cfg.Verbose = *verbose
		cfg.MaxUnroll = *unroll
		cfg.QuickLoopCap = *qcap
		cfg.UnitSec = *unitsec
		cfg.InlineOnPreFail = *inlpre
		if *nocon != "" {
			cfg.NoContracts = map[string]bool{}
			for _, n := range strings.Split(*nocon, ",") {
				cfg.NoContracts[n] = true
			}
		}
		if *prof != "" {
			f, _ := os.Create(*prof)
			pprof.StartCPUProfile(f)
			defer pprof.StopCPUProfile()
		}
		for i := 1; i < len(args); i++ {
			fn := p.LookupFunc(gvc.ModPath+"/"+args[0], args[i])
			if fn == nil {
				fmt.Println("not found:", args[i])
				os.Exit(2)
			}
			r := gvc.VerifyFunc(p, fn, cfg, gvc.Options{UseRequires: true, CheckPosts: *posts, NoAlias: *noalias, MethodsOnSuccess: *methods, MethodsOnError: *onerr, ZeroRecv: *zero})
			if *asJSON {
				b, _ := json.MarshalIndent(r, "", " ")
				fmt.Println(string(b))
				continue
			}
			fmt.Println(r.Summary())
			for _, o := range r.Obls {
				if o.Status != "proved" || *verbose {
					fmt.Printf("   %-8s %s  (inst=%d triv=%d)\n", o.Status, o.Name, o.Instances, o.Trivial)
				}
			}
			for _, l := range r.Limits {
				fmt.Println("   LIMIT:", l)
			}
			if *verbose {
				for k, v := range r.Assumed {
					fmt.Printf("   assumed x%d: %s\n", v, k)
				}
				fmt.Println("   inlined:", strings.Join(keys(r.Inlined), ", "))
			}
		}
	}
}

func keys(m map[string]int) []string {
	var ks []string
	for k := range m {
		ks = append(ks, k)
	}
	return ks
}
