package main

import (
	"fmt"
	"os"
	"sort"

	"gvc/gvc"

	"golang.org/x/tools/go/ssa"
)

func main() {
	if len(os.Args) < 2 {
		fmt.Println("usage: gvc <cmd>")
		os.Exit(2)
	}
	switch os.Args[1] {
	case "scan":
		p, err := gvc.Load("/repo", false)
		if err != nil {
			fmt.Println(err)
			os.Exit(2)
		}
		ext := map[string]int{}
		kinds := map[string]int{}
		for _, fn := range p.AllRepoFuncs() {
			var visit func(f *ssa.Function)
			visit = func(f *ssa.Function) {
				for _, b := range f.Blocks {
					for _, in := range b.Instrs {
						kinds[fmt.Sprintf("%T", in)]++
						if c, ok := in.(ssa.CallInstruction); ok {
							cc := c.Common()
							if cc.IsInvoke() {
								ext["invoke "+cc.Value.Type().String()+"."+cc.Method.Name()]++
							} else if sf := cc.StaticCallee(); sf != nil {
								if !gvc.InRepo(sf) {
									ext[sf.String()]++
								}
							} else if b, ok := cc.Value.(*ssa.Builtin); ok {
								ext["builtin "+b.Name()]++
							} else {
								ext["dynamic "+cc.Value.Type().String()]++
							}
						}
					}
				}
				for _, af := range f.AnonFuncs {
					visit(af)
				}
			}
			visit(fn)
		}
		pr := func(m map[string]int) {
			var ks []string
			for k := range m {
				ks = append(ks, k)
			}
			sort.Strings(ks)
			for _, k := range ks {
				fmt.Printf("%6d %s\n", m[k], k)
			}
		}
		pr(kinds)
		fmt.Println("----")
		pr(ext)
	case "dump":
		p, err := gvc.Load("/repo", false)
		if err != nil {
			fmt.Println(err)
			os.Exit(2)
		}
		fn := p.LookupFunc(gvc.ModPath+"/"+os.Args[2], os.Args[3])
		if fn == nil {
			fmt.Println("not found")
			os.Exit(2)
		}
		fn.WriteTo(os.Stdout)
	}
}
