#!/bin/bash
# tools/mutants.sh [name...]  - must-fail corpus: apply each seeded change (/verif/seeded/<name>/patch.diff) to a
# scratch copy of /repo outside /repo and /verif, run the quick check of the property it breaks, expect a VIOLATION.
cd /verif && . ./env.sh
names="$@"; [ -z "$names" ] && names=$(ls seeded)
killed=0; total=0; missed=""
for n in $names; do
  [ -f seeded/$n/patch.diff ] || continue
  prop=$(python3 -c "import json;print(json.load(open('seeded/$n/meta.json')).get('property',''))" 2>/dev/null)
  [ -z "$prop" ] && prop=${n%%-*}
  S=$(mktemp -d /tmp/gvc-mut-XXXX)
  rsync -a --exclude .git /repo/ $S/repo/
  if ! (cd $S/repo && patch -p1 -s --no-backup-if-mismatch < /verif/seeded/$n/patch.diff >/dev/null 2>&1); then echo "$n: patch does not apply"; rm -rf $S; continue; fi
  total=$((total+1))
  mkdir -p $S/v && cp /verif/known_findings.json $S/v/
  out=$(timeout ${MUT_TIMEOUT:-1500} bin/gvc check --repo $S/repo --verif $S/v --property $prop 2>&1 | grep -E "VIOLATION|FAULT|LOAD ERROR|load errors|quick:" | (head -40; cat >/dev/null))
  if ! echo "$out" | grep -q "quick:"; then echo "$n ($prop): ENGINE-ERROR  $(echo "$out" | head -2 | tr '\n' ' ')"; missed="$missed $n(error)"; rm -rf $S; continue; fi
  if echo "$out" | grep -q VIOLATION; then killed=$((killed+1)); echo "$n ($prop): KILLED  $(echo "$out" | grep -c VIOLATION) violation(s)"; else missed="$missed $n"; echo "$n ($prop): SURVIVED  $(echo "$out" | tail -1)"; fi
  rm -rf $S
done
echo "mutants killed: $killed/$total  survived:$missed"
