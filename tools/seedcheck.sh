#!/bin/bash
# tools/seedcheck.sh <seed-out-dir> <name> <property>
#   confirms a seeded change in a scratch worktree of /repo (outside /repo and /verif), stores it under
#   /verif/seeded/<name>/ and runs the property's check against it.
set -u
SRC="$1"; NAME="$2"; PROP="$3"
cd /verif && . ./env.sh
WT=$(mktemp -d /tmp/seedwt-XXXX); rmdir "$WT"
git -C /repo worktree add -q --detach "$WT" HEAD || exit 2
trap 'git -C /repo worktree remove --force "$WT" >/dev/null 2>&1; rm -rf "$WT"' EXIT
DEMO_REL=$(cat "$SRC/demo_path.txt" | tr -d '\n\r ')
DEMO_FILE="$SRC/$(basename "$DEMO_REL")"
LOG=/tmp/seedcheck-$NAME.log; : > $LOG
cp "$DEMO_FILE" "$WT/$DEMO_REL"
PKG="./$(dirname "$DEMO_REL")/"
(cd "$WT" && timeout 600 go test -mod=mod -vet=off -count=1 -timeout 300s $PKG -run 'Seed|seed|ZZ|Zz' >>$LOG 2>&1); R1=$?
(cd "$WT" && timeout 600 go test -mod=mod -vet=off -count=1 -timeout 300s $PKG >>$LOG 2>&1); R1b=$?
if ! git -C "$WT" apply "$SRC/patch.diff" >>$LOG 2>&1; then echo "$NAME: PATCH-DOES-NOT-APPLY"; exit 3; fi
(cd "$WT" && timeout 600 go build ./... >>$LOG 2>&1); RB=$?
(cd "$WT" && timeout 600 go test -mod=mod -vet=off -count=1 -timeout 300s $PKG >>$LOG 2>&1); R2=$?
rm -f "$WT/$DEMO_REL"
(cd "$WT" && timeout 1500 go test -mod=mod -vet=off -count=1 -timeout 25m ./... >>$LOG 2>&1); R3=$?
echo "$NAME: demo-clean=$R1b build=$RB demo-with-change=$R2 suite-with-change=$R3"
if [ $R1b -ne 0 ] || [ $RB -ne 0 ] || [ $R2 -eq 0 ] || [ $R3 -ne 0 ]; then echo "$NAME: NOT-CONFIRMED (see $LOG)"; exit 4; fi
mkdir -p /verif/seeded/$NAME
cp "$SRC/patch.diff" /verif/seeded/$NAME/patch.diff
cp "$DEMO_FILE" /verif/seeded/$NAME/
cp "$SRC/demo_path.txt" /verif/seeded/$NAME/
python3 - "$SRC/meta.json" "/verif/seeded/$NAME/meta.json" "$PROP" <<'PY' 2>/dev/null
import json,sys
try: m=json.load(open(sys.argv[1]))
except Exception: m={}
m['property']=sys.argv[3]
m['confirmed_by']="tools/seedcheck.sh: scratch worktree of /repo HEAD; demo passes on clean tree, fails with change; go build ok; full suite (25m timeout) ok with change"
json.dump(m,open(sys.argv[2],'w'),indent=1)
PY
# run the property's check against the changed tree
mkdir -p /tmp/seedverif-$NAME && cp /verif/known_findings.json /tmp/seedverif-$NAME/
OUT=$(timeout 1500 bin/gvc check --repo "$WT" --verif /tmp/seedverif-$NAME --property "$PROP" 2>&1 | grep -E "VIOLATION|FAULT|quick:" | sed "s|/tmp/seedverif-$NAME||" | head -8)
rm -rf /tmp/seedverif-$NAME
echo "$OUT" | sed "s/^/$NAME:   /"
if echo "$OUT" | grep -q VIOLATION; then echo "$NAME: CAUGHT"; else echo "$NAME: MISSED"; fi
