#!/bin/bash
# tools/expected.sh [id...] - regenerate /verif/expected/<id>.quick.txt from a run of the quick check on the
# UNCHANGED tree: the names of the postcondition / lemma obligations that are generated (reachability baseline).
# A later run in which one of them is not generated at all is an engine fault (exit 2), never a pass.
cd /verif && . ./env.sh
ids="$@"; [ -z "$ids" ] && ids=$(ls evidence | sed 's/.json//')
echo $ids | tr ' ' '\n' | xargs -P 5 -I{} sh -c 'GVC_WRITE_EXPECTED=1 timeout 1500 bin/gvc check --repo /repo --verif /verif --property {} --tier quick 2>&1 | grep -E "quick:|FAULT|VIOLATION"'
wc -l expected/*.txt | tail -1
