#!/bin/bash
# Build the verifier offline from files on disk only.
set -e
cd "$(dirname "$0")"
. ./env.sh
mkdir -p bin evidence replays
cd engine
go build -o ../bin/gvc ./cmd/gvc
echo "gvc built: $(../bin/gvc version 2>/dev/null || true)"
